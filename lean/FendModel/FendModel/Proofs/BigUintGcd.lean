/-
Well-formedness (every limb a `u64`) is preserved by `add` and `mul`; `rem`, `div` and the Euclidean
`gcd` loop compute `%`, `/` and `Nat.gcd` for every pair of limb vectors.
-/
import FendModel.Proofs.BigUintDivmod

namespace Fend.BigUint

/-! ### `add` / `mul` keep limbs below 2^64 -/

theorem aaiLoop_WF (other : BigUint) (ho : other.WF) (d shift n : Nat) (hd : d < B) (i : Nat) (s : BigUint) (c : Nat)
    (hs : s.WF) (hc : c < B) :
    (aaiLoop other d shift n i s c).1.WF ∧ (aaiLoop other d shift n i s c).2 < B := by
  fun_induction aaiLoop other d shift n i s c with
  | case1 i s c hlt a b sum ih =>
    have ha : a < B := get_lt s hs i
    have hb : b < B := by
      show (if i ≥ shift then other.get (i - shift) else 0) < B
      split
      · exact get_lt other ho _
      · exact B_pos
    have hsum : sum = a + b * d + c := rfl
    have hbd : b * d ≤ (B - 1) * (B - 1) := Nat.mul_le_mul (by omega) (by omega)
    have hcarry : sum / B < B := by
      rw [Nat.div_lt_iff_lt_mul B_pos, hsum]
      have : (B - 1) * (B - 1) + 2 * B ≤ B * B + 1 := by decide
      omega
    exact ih (WF_set s i _ hs (Nat.mod_lt _ B_pos)) hcarry
  | case2 i s c hlt => exact ⟨hs, hc⟩

theorem addAssignInternal_WF (self other : BigUint) (d shift : Nat) (hs : self.WF) (ho : other.WF) (hd : d < B) :
    (addAssignInternal self other d shift).WF := by
  unfold addAssignInternal
  have h := aaiLoop_WF other ho d shift (max self.valueLen (other.valueLen + shift)) hd 0 self 0 hs B_pos
  show (if (aaiLoop other d shift (max self.valueLen (other.valueLen + shift)) 0 self 0).2 ≠ 0
      then (aaiLoop other d shift (max self.valueLen (other.valueLen + shift)) 0 self 0).1.set
        (max self.valueLen (other.valueLen + shift))
        (aaiLoop other d shift (max self.valueLen (other.valueLen + shift)) 0 self 0).2
      else (aaiLoop other d shift (max self.valueLen (other.valueLen + shift)) 0 self 0).1).WF
  split
  · exact WF_set _ _ _ h.1 h.2
  · exact h.1

theorem add_WF (a b : BigUint) (ha : a.WF) (hb : b.WF) : (a.add b).WF :=
  addAssignInternal_WF a b 1 0 ha hb (by decide)

theorem mulLoop_WF (sc other : BigUint) (hsc : sc.WF) (ho : other.WF) (n i : Nat) (acc : BigUint) (hacc : acc.WF) :
    (mulLoop sc other n i acc).WF := by
  fun_induction mulLoop sc other n i acc with
  | case1 i acc hlt ih => exact ih (addAssignInternal_WF acc sc _ i hacc hsc (get_lt other ho i))
  | case2 i acc hlt => exact hacc

theorem mulInternal_WF (a b : BigUint) (ha : a.WF) (hb : b.WF) : (mulInternal a b).WF := by
  unfold mulInternal
  split
  · exact B_pos
  · exact mulLoop_WF a b ha hb _ 0 _ (by intro y hy; simp at hy; rw [hy]; exact B_pos)

theorem mul_WF (a b : BigUint) (ha : a.WF) (hb : b.WF) : (a.mul b).WF := by
  unfold mul
  split
  · split
    · rename_i h; exact h
    · exact mulInternal_WF _ _ ha hb
  · exact mulInternal_WF _ _ ha hb

/-! ### `rem`, `div`, `gcd` -/

theorem rem_val (a b : BigUint) (ha : a.WF) (hb : b.WF) (hb0 : val b ≠ 0) :
    ∃ r, rem a b = .ok r ∧ val r = val a % val b ∧ r.WF := by
  obtain ⟨q, r, h, _, hr, _, hw⟩ := divmod_val a b ha hb hb0
  exact ⟨r, by simp [rem, h, bind, Except.bind], hr, hw⟩

theorem div_val (a b : BigUint) (ha : a.WF) (hb : b.WF) (hb0 : val b ≠ 0) :
    ∃ q, div a b = .ok q ∧ val q = val a / val b ∧ q.WF := by
  obtain ⟨q, r, h, hq, _, hw, _⟩ := divmod_val a b ha hb hb0
  exact ⟨q, by simp [div, h, bind, Except.bind], hq, hw⟩

theorem gcdLoop_val (fuel : Nat) (a b : BigUint) (ha : a.WF) (hb : b.WF) (hf : val b < fuel) :
    ∃ g, gcdLoop fuel a b = .ok g ∧ val g = Nat.gcd (val a) (val b) ∧ g.WF := by
  induction fuel generalizing a b with
  | zero => omega
  | succ fuel ih =>
    have w1 : (small 1).WF := by show 1 < B; decide
    by_cases h1 : ble (small 1) b = true
    · have hpos : 1 ≤ val b := (ble_iff _ b w1 hb).mp h1
      obtain ⟨r, hr, hrv, hrw⟩ := rem_val a b ha hb (by omega)
      have hlt : val r < val b := by rw [hrv]; exact Nat.mod_lt _ (by omega)
      obtain ⟨g, hg, hgv, hgw⟩ := ih b r hb hrw (by omega)
      refine ⟨g, by simp only [gcdLoop, h1, if_true, hr]; exact hg, ?_, hgw⟩
      rw [hgv, hrv, Nat.gcd_comm (val a) (val b), Nat.gcd_rec (val b) (val a), Nat.gcd_comm]
    · have h0 : val b = 0 := by
        have : ¬ 1 ≤ val b := fun h => h1 ((ble_iff _ b w1 hb).mpr h)
        omega
      exact ⟨a, by simp [gcdLoop, h1], by rw [h0, Nat.gcd_zero_right], ha⟩

/-- `gcd` is `Nat.gcd` of the values, and the fuel `val b + 2` always suffices -/
theorem gcd_val (a b : BigUint) (ha : a.WF) (hb : b.WF) :
    ∃ g, gcd a b = .ok g ∧ val g = Nat.gcd (val a) (val b) ∧ g.WF :=
  gcdLoop_val (val b + 2) a b ha hb (by omega)

end Fend.BigUint
