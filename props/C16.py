"""C16 — calendar arithmetic follows the proleptic Gregorian calendar."""
import datetime, calendar, time
from vlib import core

MODULE = "FendModel.Props.C16"
REL = "FendModel/Props/C16.lean"

def hx(s):
    return " ".join("%x" % ord(c) for c in s)

def py_wd(d):           # 0 = Sunday
    return (d.weekday() + 1) % 7

def expect(case):
    """independent calendar (python datetime, proleptic Gregorian, years 1..9999)"""
    ws = case.split(" ")
    if ws[0] == "lit":
        import re
        txt = "".join(chr(int(w, 16)) for w in ws[1:])
        mt = re.match(r"[0-9]+-[0-9]+-[0-9]+", txt)
        if not mt:
            return "err"
        if txt[mt.end():].strip(" \t\n\r\x0b\x0c") != "":
            return None          # further tokens follow the literal: not a literal-only input
        parts = mt.group(0).split("-")
        if parts[0].startswith("0"):
            return "err"
        y, m, d = (int(p) for p in parts)
        if y < 1000 or y > 2147483647:
            return "err"
        if not (1 <= m <= 12) or d < 1:
            return "err"
        leap = y % 4 == 0 and (y % 100 != 0 or y % 400 == 0)
        ml = [31, 29 if leap else 28, 31, 30, 31, 30, 31, 31, 30, 31, 30, 31][m - 1]
        if d > ml:
            return "err"
        if y > 9999:
            return None
        dt = datetime.date(y, m, d)
        return f"ok {y} {m} {d} {py_wd(dt)}"
    y, m, d = int(ws[0]), int(ws[1]), int(ws[2])
    cur = datetime.date(y, m, d)
    ops = ws[3:]
    for i in range(0, len(ops), 2):
        op, n = ops[i], int(ops[i + 1])
        try:
            if op == "+d": cur = cur + datetime.timedelta(days=n)
            elif op == "-d": cur = cur - datetime.timedelta(days=n)
            elif op == "-w": cur = cur - datetime.timedelta(days=7 * n)
            else:
                k = n * 12 if op == "-y" else n
                idx = cur.year * 12 + cur.month - 1 - k
                ny, nm = idx // 12, idx % 12 + 1
                if ny < 1: return None
                if cur.day > calendar.monthrange(ny, nm)[1]:
                    return f"nonexistent {ny} {nm} {cur.day}"
                cur = datetime.date(ny, nm, cur.day)
        except OverflowError:
            return None
    return f"ok {cur.year} {cur.month} {cur.day} {py_wd(cur)}"

def oracle(case, impl, model):
    e = expect(case)
    if e is None or e == impl:
        return None
    if e == "err" and impl.startswith("err"):
        return None
    return f"independent calendar (python datetime) says {e!r}, implementation answered {impl!r}"

def gen(r, n):
    out = []
    # boundaries: every century / leap-day / year end between 1000 and 9999 (sampled in quick)
    for y in range(1000, 10000, 100):
        for (m, d) in ((2, 28), (12, 31), (3, 1)):
            out.append(f"{y} {m} {d} +d 1")
            out.append(f"{y} {m} {d} +d 2 -d 2")
        out.append(f"{y} 3 1 -d 1")
        out.append(f"{y + 4} 2 29 -y 4")
        out.append(f"{y + 4} 2 29 -y 1")
        out.append(f"{y} 3 31 -m 1")
    while len(out) < n:
        y = r.choice([1000, 1001, 1582, 1600, 1700, 1900, 1970, 2000, 2020, 2024, 2100, 9999, r.randint(1000, 9999)])
        m = r.randint(1, 12)
        d = r.randint(1, calendar.monthrange(y, m)[1])
        k = r.random()
        if k < 0.3:
            nd = r.choice([0, 1, 27, 28, 29, 30, 31, 59, 365, 366, 367, 730, 1461, 36524, 36525, 146097, r.randint(0, 10**5)])
            out.append(f"{y} {m} {d} +d {nd} -d {nd}")
        elif k < 0.45:
            out.append(f"{y} {m} {d} +d {r.randint(0, 10**5)}")
        elif k < 0.6:
            out.append(f"{y} {m} {d} -d {r.choice([1, 365, 366, 400, 1461, r.randint(0, 10**5)])}")
        elif k < 0.68:
            out.append(f"{y} {m} {d} -w {r.randint(0, 20000)}")
        elif k < 0.8:
            out.append(f"{y} {m} {d} -m {r.choice([1, 2, 11, 12, 13, 24, r.randint(0, 5000)])}")
        elif k < 0.9:
            out.append(f"{y} {m} {d} -y {r.choice([1, 4, 100, 400, r.randint(0, y - 1)])}")
        else:
            # walk down to the first centuries AD, then forward again
            back = r.randint(y - 1000 + 1, y - 1)
            out.append(f"{y} {m} {min(d, 28)} -y {back} +d {r.randint(0, 2000)} -d {r.randint(0, 300)}")
    return out

def gen_lits(r, n):
    out = [hx("2024-02-29"), hx("1900-02-29"), hx("2000-02-29"), hx("0999-12-31"), hx(" 2024-02-03 "), hx("2024-2-3"), hx("2147483647-12-31"),
           hx("2147483648-01-01"), hx("2024-00-10"), hx("2024-13-01"), hx("2024-04-31"), hx("2024-4-030"), hx("2024-02-29x"), hx("+2024-02-29"),
           hx("１９７０-01-01"), hx("2024-٠٢-01")]
    while len(out) < n:
        y = r.choice([999, 1000, 1900, 2000, 2023, 2024, 9999, 10000, 123456, r.randint(900, 12000)])
        m = r.choice([0, 1, 2, 2, 2, 4, 6, 9, 11, 12, 13, r.randint(1, 12)])
        d = r.choice([0, 1, 28, 29, 30, 31, 32, r.randint(1, 31)])
        fm = r.choice(["%d-%02d-%02d", "%d-%d-%d", "%04d-%02d-%02d", " %d-%02d-%02d", "%d-%02d-%02d ", "%d/%02d/%02d", "%d-%02d", "%d-%02d-%02d-", "%d-%03d-%02d"])
        try:
            out.append(hx(fm % ((y, m, d) if fm.count("%") == 3 else (y, m))))
        except TypeError:
            pass
    return ["lit " + x for x in out]

def run(ctx):
    quick = ctx.tier == "quick"
    ctx.lean_build([MODULE])
    ctx.audit(MODULE, REL)
    if not quick:
        ctx.leanchecker(MODULE)
    h = ctx.harness()
    if h is None:
        ctx.proof_failures.append({"file": "harness", "decl": "harness build (verif-hooks)", "line": 0, "msg": getattr(ctx, "harness_error", "")})
        return ctx.finish()
    r = ctx.rng
    canon = lambda a, b, c: ("skip", "skip") if b == "skip" else (("err" if a.startswith("err") else a), b)
    ctx.diff_stream("date-arith", gen(r, 6000 if quick else 60000), h, "date", canon=canon, oracle=oracle,
                    nontrivial=lambda c, a: len(c.split(" ")) > 3,
                    what="`@Y-M-D` then chains of + n days, - n days|weeks|months|years through fend_core::evaluate (result text parsed to Y M D weekday); "
                         "vs the Lean model and vs Python datetime (independent proleptic Gregorian calendar)")
    ctx.diff_stream("date-literals", gen_lits(r, 3000 if quick else 40000), h, "date", canon=canon, oracle=oracle,
                    nontrivial=lambda c, a: True,
                    what="grammar of valid and invalid date literals (ranges, leap days, padding, trailing text, non-ASCII digits)")
    if not quick:
        # every day of years 1000-9999 against the independent calendar
        days = []
        d = datetime.date(1000, 1, 1)
        end = datetime.date(9999, 12, 31)
        one = datetime.timedelta(days=1)
        while True:
            days.append("lit " + hx("%d-%02d-%02d" % (d.year, d.month, d.day)))
            if d == end:
                break
            d += one
        ctx.diff_stream("every-day-1000-9999", days, h, "date", canon=canon, oracle=oracle, nontrivial=lambda c, a: True,
                        what="every day of years 1000-9999: literal accepted, weekday and month as the independent calendar has them (exhaustive)")
    return ctx.finish(rule="dates drawn from boundary years and uniformly from 1000-9999, offsets from boundary lengths (28..31, 365/366, 1461, 36524, 146097) and "
                           "uniformly up to 10^5 days; walks below year 1000 via - n years; distinct = distinct case lines; non-trivial = has at least one arithmetic step",
                      extra={"exhaustive": False})

def replay(ctx, rep):
    h = ctx.harness()
    f = rep["first"]
    print("case :", f["input"])
    print("impl :", ctx.run_lines(h, ["date"], [f["input"]])[1])
    print("model:", ctx.run_lines(core.DRIVER, ["date"], [f["input"]])[1])
    print("spec :", expect(f["input"]))
    return 0
