"""C06 — no input can crash fend: evaluation always returns a result or an error."""
import os, re, time
from vlib import core
from translator import panic_sites, rustsrc

MODULE = "FendModel.Props.C06"
REL = "FendModel/Props/C06.lean"

def hx(s):
    b = s.encode("utf-8", "surrogatepass") if False else s.encode("utf-8")
    return b.hex() if b else "-"

NUMS = ["0", "1", "2", "7", "10", "255", "1.5", "0.1", ".5", "1e3", "1e-3", "1E5", "0x1f", "0b101", "0o17", "36#zz", "7#1.(3)", "1.(6)", "0.0(15)", "1_000", "1,000", "1.000,5", "2d6", "d20", "1e400",
        "99999999999999999999", "18446744073709551616", "1/3", "1 2/3", "0.000000001", "4294967296", "2⁹", "3²³", "10⁰", "¹", "½", "⅓", "٣", "２", "९", "Ⅷ", "𝟗", "①"]
IDENTS = ["pi", "e", "i", "x", "y", "kg", "m", "s", "km", "ft", "inch", "°C", "°F", "K", "kelvin", "C", "F", "USD", "EUR", "$", "£", "%", "‰", "bytes", "GiB", "mph", "light", "year", "sin", "cos", "tan", "asin", "ln", "log2",
          "log10", "exp", "sqrt", "cbrt", "abs", "floor", "ceil", "round", "fibonacci", "not", "true", "false", "roll", "mean", "real", "imag", "arg", "conjugate", "sample", "approx", "dp", "sf", "hex", "binary",
          "octal", "base", "float", "fraction", "mixed_fraction", "exact", "auto", "roman", "words", "char", "codepoint", "string", "date", "today", "tomorrow", "yesterday", "ans", "_", "florp", "kilozib",
          "differentiate", "version", "units", "sqm", "cc", "dozen", "per", "of", "to", "as", "in", "mod", "xor", "and", "or", "nCr", "nPr", "choose", "permute", "unitless", "π", "τ", "°", "′", "″", "é", "日本", "𝒳"]
SYMS = ["+", "-", "*", "/", "^", "**", "!", "(", ")", "()", "((", "))", "=", "==", "!=", "<>", ";", ":", "=>", "\\", ".", ",", "<<", ">>", "&", "|", "−", "×", "÷", "∕", "✕", "≠", "λ", "@", "@debug ", "@noapprox ",
        "@plain_number ", "#", "'", '"', "{", "}", "[", "]", "[[", "]]", "<", ">", "~", "`", "?", "\t", "\n", "\r", "\0", "\x7f", "​", "‮", "﻿", "́", "🎲", " ", "  ", "%", "‽"]
STRS = ['"abc"', "'x'", '"\\n"', '"\\u{1f600}"', '"\\x41"', '"\\^A"', '"unterminated', "'", '"\\', '"\\u{110000}"', '"\\u{d800}"', '"" + ""', '"a" + 1']
DATES = ["@2020-02-29", "@1970-01-01", "@9999-12-31", "@2147483647-12-31", "@1000-01-01", "@0001-01-01", "@2021-13-01", "@2021-02-30", "@2021-1-1", "@", "@2021-", "@2021-01-0٣", "@２０２１-04-14", "@²", "@٣", "@-5"]
FORMS = ["1 + 1", "2 ^ 3 ^ 2", "5!", "(-8)^(1/3)", "i^-1", "i^i", "(1+i)^(2-3i)", "0^0", "1/0", "0/0", "ln 0", "sqrt(-1)", "2^1e10", "2^-1e10", "10^10^10", "1e1e1e1", "3 kg to lb", "1 °C to °F", "1 kg + 1 m",
         "x = 5; x^2", "f = \\x. x x", "(\\x. x x)(\\x. x x)" if False else "(\\x. x) 3", "x: y: x + y", "(x => x + 1) 2", "roll d6", "mean(3d6)", "d6 + d6", "10000d10000", "1d0", "0d6", "d6 to float",
         "1 to 0 sf", "1/3 to 100 dp", "1/7 to base 36 to float", "255 to base 1", "255 to base 37", "5 to roman", "0 to roman", "10^12 to words", "128512 to char", "1114112 to char", "55296 to char",
         "'a' to codepoint", "@2020-01-01 + 1 day", "@2020-01-01 - 1 month", "@2020-01-31 - 1 month", "@2000-01-01 - 10^9 days", "@2147483647-12-31 + 1 day", "@1000-01-01 - 2000 years", "today - @2000-01-01",
         "1 USD to EUR", "$5", "5 % of 20", "5 %", "1 light year", "1 sqm", "5'10\"", "5 feet 10 inches", "1 2/3", "2 3", "-3!", "3!!", "(2)(3)", "2(3)", "sin 2 x", "1 << 1000", "1 >> 70", "2^64 xor 1", "1.5 & 3",
         "-1 & 1", "100 nCr 50", "5 nPr 6", "10^30 nCr 2", "fibonacci 100000", "fibonacci(-1)", "2^(2^64)", "2^(2^64+5-2^64)", "1e-99999", "0x", "0b2", "1e", "1..2", "1__0", "37#1", "0#1", "6#3e9", "1.(3a)",
         "differentiate(x: x^2)", "differentiate(sin)", "sin^-1 0.5", "log2^-1 3", "(x: x)^-1", "real(1+2i)", "(1+2i) to 3 dp", "i to roman", "pi to fraction", "e to exact", "1/3 to mixed_fraction to base 2",
         "a = 1; b = a; a = b + 1; a", "f = x: f x; 1", "() + ()", "'a' + 1", "true + 1", "not 5", "@debug 1/3", "@noapprox pi", "@plain_number 10^30", "@debug @noapprox 1", "1 unitless", "kg^(1/2)", "(1 kg)^pi",
         "(1 kg)^(1 m)", "2^(1 kg/g)", "1 kg mod 1", "sqrt(kg)", "1 °C * 1 K to K", "100 °C °F", "1 C + 1 F", "1 florp + 1 kg", "1 kilozib", "1 μm", "1 µs", "1 Ω", "1 Å", "1 ° + 1 ′ + 1 ″"]

def suite_inputs():
    src = open(os.path.join(rustsrc.REPO, "core/tests/integration_tests.rs")).read()
    out = []
    for m in re.finditer(r'"((?:[^"\\\n]|\\.)*)"', src):
        t = m.group(1)
        if 0 < len(t) <= 120:
            try:
                t = t.encode().decode("unicode_escape").encode("latin-1", "ignore").decode("utf-8", "ignore") if "\\" in t else t
            except Exception:
                pass
            out.append(t)
    man = []
    for f in ("expressions.md", "scripting.md", "configuration.md"):
        p = os.path.join(rustsrc.REPO, "documentation/chapters", f)
        if os.path.exists(p):
            for l in open(p):
                if l.startswith("> "):
                    man.append(l[2:].rstrip("\n"))
    return sorted(set(out)), sorted(set(man))

def soup(r):
    n = r.choice([1, 2, 2, 3, 3, 4, 5, 6, 8, 12])
    parts = []
    for _ in range(n):
        pool = r.choice([NUMS, NUMS, IDENTS, IDENTS, SYMS, SYMS, SYMS, STRS, DATES, FORMS])
        parts.append(r.choice(pool))
        if r.random() < 0.5:
            parts.append(" ")
    return "".join(parts)

def mutate(r, s):
    cs = list(s)
    for _ in range(r.choice([1, 1, 2, 3])):
        op = r.randrange(6)
        i = r.randrange(len(cs) + 1)
        ins = r.choice(SYMS + NUMS[-12:] + ["0", "9", "e", "d", ".", "(", ")", "@", "\\", "'", '"', "⁵", "i", "%", "_", ",", "°"])
        if op == 0: cs[i:i] = list(ins)
        elif op == 1 and cs: del cs[min(i, len(cs) - 1)]
        elif op == 2 and cs: cs[min(i, len(cs) - 1)] = ins[0] if ins else "x"
        elif op == 3 and cs:
            j = r.randrange(len(cs)); cs[i:i] = cs[j:j + r.randint(1, 4)]
        elif op == 4 and len(cs) > 1:
            j = min(i, len(cs) - 2); cs[j], cs[j + 1] = cs[j + 1], cs[j]
        else:
            cs = cs[: i]
    return "".join(cs)

NEST = [("paren", "(", "1", ")"), ("open-paren-only", "(", "1", ""), ("unary-minus", "-", "1", ""), ("power", "2^", "2", ""), ("factorial", "", "3", "!"), ("lambda", "a=>", "1", ""), ("backslash-lambda", "\\a.", "1", ""),
        ("sqrt", "sqrt ", "2", ""), ("unary-plus", "+", "1", ""), ("unary-div", "/", "2", ""), ("semicolons", ";", "1", ""), ("juxtapose", "2 ", "2", ""), ("string-concat", "'a'+", "'a'", ""),
        ("implicit-add", "1 ft ", "1 in", ""), ("assign", "a=", "1", ""), ("to-chain", "", "1 m", " to m"), ("plus-chain", "1+", "1", ""), ("bracket", "[", "1", "]")]

def run(ctx):
    quick = ctx.tier == "quick"
    h = ctx.harness()
    if h is None:
        ctx.proof_failures.append({"file": "harness", "decl": "harness build", "line": 0, "msg": getattr(ctx, "harness_error", "")})
        return ctx.finish()
    panic_sites.generate()               # Tie A
    ctx.lean_build([MODULE])
    ctx.audit(MODULE, REL)
    if not quick:
        ctx.leanchecker(MODULE)
    if ctx.proof_failures:
        # which site is new?
        import json as _j
        try:
            txt = open(os.path.join(core.LEAN, REL)).read()
        except Exception:
            txt = ""
        for (a, b, c, n) in panic_sites.scan():
            if f'("{a}", "{b}", "{c}", {n})' not in txt:
                ctx.notes.append(f"unreviewed panic construct: {a} fn {b}: {c} x{n}")
    t0 = time.time()
    r = ctx.rng
    suite, manual = suite_inputs()
    texts = []        # (origin, text)
    for s in (suite if not quick else r.sample(suite, min(400, len(suite)))):
        texts.append(("suite", s))
    for s in manual + FORMS + DATES + STRS:
        texts.append(("manual", s))
    for _ in range(2500 if quick else 60000):
        texts.append(("soup", soup(r)))
    # multi-limb integer arithmetic on limb patterns of all ones / all zeros (carry and borrow chains)
    def bigint():
        k = r.choice([64, 64, 128, 128, 192, 256])
        return r.choice([f"2^{k}", f"(2^{k} - 1)", f"(2^{k} + 1)", f"(2^{k} - 2^{k - 64})", f"(2^{k} + 2^64 - 1)", f"0x{'f' * (k // 4)}", f"0x1{'0' * (k // 4)}", str(r.getrandbits(k + 8))])
    for _ in range(400 if quick else 8000):
        op = r.choice([" - ", " + ", " * ", " / ", " mod ", " xor ", " & ", " | ", " >> ", "^", " nCr "])
        a, b = bigint(), bigint()
        if op in (" >> ", "^", " nCr "): b = str(r.randint(0, 70))
        texts.append(("bigint", r.choice(["", "gcd? "]) [:0] + f"{a}{op}{b}" + r.choice(["", " to hex", " to float", " to words", " to 5 sf", "; ans + 1"])))
    base = suite + manual + FORMS
    for _ in range(2500 if quick else 60000):
        texts.append(("mutation", mutate(r, r.choice(base))))
    def flags():
        return ",".join([f"comma={r.randint(0, 1)}", f"cf={r.randint(0, 1)}", f"rng={r.randint(0, 1)}", f"xr={r.randint(0, 2)}", f"custom={r.randint(0, 1)}"])
    lines, meta = [], []
    for origin, t in texts:
        t = t.replace("\n", " ") if False else t
        if len(t.encode()) > 4000: continue
        hxs = hx(t)
        fl = flags()
        entries = ["eval"]
        c = r.random()
        if c < 0.35: entries.append("preview")
        if c > 0.75 or origin in ("manual",): entries.append("prefixes")
        if r.random() < 0.15: entries.append("complete")
        if r.random() < 0.2:
            lines.append(f"{fl} inline {hx('text [[' + t + ']] and [[' + t)}"); meta.append((origin, "inline", t))
        for e in entries:
            lines.append(f"{fl} {e} {hxs}"); meta.append((origin, e, t))
    # nesting ramps
    depths = [10, 100, 1000, 10000]
    for name, pre, mid, post in NEST:
        for d in depths:
            t = pre * d + mid + post * d
            for e in (["eval", "preview"] if d <= 1000 else ["eval"]):
                lines.append(f"comma=0,cf=0,rng=1,xr=1,custom=0 {e} {hx(t)}"); meta.append(("nesting", e, f"nest kind={name} depth={d} entry={e}"))
    # recursion through late-bound names
    for t in ["f = x: f x; f 1", "f = \\x. f (x + 1); f 0", "a = x: b x; b = x: a x; a 1", "f = x: 1 + f x; f 1"]:
        lines.append(f"comma=0,cf=0,rng=1,xr=1,custom=0 eval {hx(t)}"); meta.append(("recursion", "eval", "recursion " + t))
    outs = ctx.run_lines_robust(h, ["crash"], lines, env={"HARNESS_LINE_TIMEOUT_S": "30", "CRASH_DEADLINE_MS": "300"})
    dist = {"origin": {}, "entry": {}, "ok": 0, "err": 0, "panic": 0, "abort": 0, "timeout": 0}
    for (origin, entry, t), line, o in zip(meta, lines, outs):
        dist["origin"][origin] = dist["origin"].get(origin, 0) + 1
        dist["entry"][entry] = dist["entry"].get(entry, 0) + 1
        if o == "ok": dist["ok"] += 1
        elif o == "err": dist["err"] += 1
        else:
            kind = "panic" if o.startswith("panic") else "abort" if o == "err abort" else "timeout" if o.startswith("err timeout") else "other"
            dist[kind] = dist.get(kind, 0) + 1
            if kind == "timeout":
                # slow, not crashed: the parser is quadratic on long chains and has no interrupt parameter — that is C07's subject
                # (bounded time between polls); C06 asks for "a result or an error, never a panic / abort / stack overflow"
                dist.setdefault("slow_inputs", []).append((t if origin in ("nesting", "recursion") else repr(t))[:80])
                continue
            shown = t if origin in ("nesting", "recursion") else t
            ctx.spec_failures.append({"stream": "crash", "input": shown if origin in ("nesting", "recursion") else f"{entry}: {t!r}", "impl": o[:300], "model": "a result or an error",
                                      "spec": {"panic": "evaluation panicked (caught unwind)", "abort": "the process aborted (stack overflow / allocation failure)",
                                               "timeout": "no answer within 30 s although the interrupt deadline fired after 0.3 s"}.get(kind, "unexpected answer"), "line": line[:200]})
    ctx.record_stream("crash", "evaluate / preview / every-prefix preview / completion / inline substitution under random context configurations (separator, C/F mode, rng, exchange rates present/absent/failing, custom "
                      "units) on: the pinned suite's inputs, the manual's examples, a hand-written list of edge forms, grammar-directed token soup (numbers incl. non-ASCII numerals and superscripts, identifiers, "
                      "symbols incl. Unicode signs and control characters, strings, dates), character-level mutations of all of these, nesting ramps to depth 100000 for 18 constructs, and recursion through "
                      "late-bound names; panics are caught (overflow checks on), aborts and hangs detected by the runner", len(lines), len(set(lines)), dist, lines[:2], time.time() - t0)
    return ctx.finish(rule="quick: 400 suite inputs + 2500 soup + 2500 mutations; thorough: all suite inputs + 60000 + 60000; each under a random configuration and 1-4 entry points")

def replay(ctx, rep):
    print(rep["first"]); return 0
