/-
C08 — operators bind as the manual's precedence table says.

What is machine-checked here is limited: the parser model (`Model/Parser.lean`, tied to `parser.rs` by the
correspondence run on token streams) is evaluated by the kernel on one instance per adjacent pair of levels
of the manual's table.  These are TESTS of the model, labelled as such; the unbounded statement
(`parse (printMin t) = t` for every AST) is not proved yet and is carried by the correspondence run.
-/
import FendModel.Model.Parser

namespace Fend.C08
open Fend.Parser

private def n (k : Nat) : Tok := .num (toString k)
private def s (x : Sym) : Tok := .sym x
private def N (k : Nat) : Expr := .num (toString k)

/-- `!` above `^`: `2^3!` = 2^(3!) -/
theorem fact_above_pow : parse [n 2, s .pow, n 3, s .fact] = some (.bop .pow (N 2) (.fact (N 3))) := by decide +kernel
/-- `^` is right-associative -/
theorem pow_right_assoc : parse [n 2, s .pow, n 3, s .pow, n 2] = some (.bop .pow (N 2) (.bop .pow (N 3) (N 2))) := by decide +kernel
/-- `^` above unary minus: `-2^2` = -(2^2); a unary minus may start an exponent: `2^-3^2` = 2^(-(3^2)) -/
theorem pow_above_neg : parse [s .sub, n 2, s .pow, n 2] = some (.neg (.bop .pow (N 2) (N 2))) ∧
    parse [n 2, s .pow, s .sub, n 3, s .pow, n 2] = some (.bop .pow (N 2) (.neg (.bop .pow (N 3) (N 2)))) := by
  constructor <;> decide +kernel
/-- unary minus above `*`: `-2*3` = (-2)*3 -/
theorem neg_above_mul : parse [s .sub, n 2, s .mul, n 3] = some (.bop .mul (.neg (N 2)) (N 3)) := by decide +kernel
/-- `* / mod` are left-associative and share a level; juxtaposition binds at the same level -/
theorem mul_left_assoc : parse [n 8, s .div, n 4, s .mul, n 2, s .mod, n 3] = some (.bop .mod (.bop .mul (.bop .div (N 8) (N 4)) (N 2)) (N 3)) ∧
    parse [n 2, .ident "kg", s .mul, n 3] = some (.bop .mul (.applyMul (N 2) (.ident "kg")) (N 3)) ∧
    parse [n 2, .ident "kg", s .pow, n 2] = some (.apply (N 2) (.bop .pow (.ident "kg") (N 2))) := by
  refine ⟨?_, ?_, ?_⟩ <;> decide +kernel
/-- `*` above `+ -`, which are left-associative -/
theorem mul_above_add : parse [n 1, s .add, n 2, s .mul, n 3, s .sub, n 4] = some (.bop .minus (.bop .plus (N 1) (.bop .mul (N 2) (N 3))) (N 4)) := by decide +kernel
/-- `+` above `<< >>` above `&` above `xor` above `|` above `nCr` above `nPr` -/
theorem bitwise_ladder :
    parse [n 1, s .shl, n 2, s .add, n 3, s .bitAnd, n 4, s .bitXor, n 5, s .bitOr, n 6, s .comb, n 7, s .perm, n 8] =
      some (.bop .perm (.bop .comb (.bop .bitOr (.bop .bitXor (.bop .bitAnd (.bop .shl (N 1) (.bop .plus (N 2) (N 3))) (N 4)) (N 5)) (N 6)) (N 7)) (N 8)) ∧
    parse [n 8, s .perm, n 7, s .comb, n 6, s .bitOr, n 5, s .bitXor, n 4, s .bitAnd, n 3, s .shr, n 2, s .sub, n 1] =
      some (.bop .perm (N 8) (.bop .comb (N 7) (.bop .bitOr (N 6) (.bop .bitXor (N 5) (.bop .bitAnd (N 4) (.bop .shr (N 3) (.bop .minus (N 2) (N 1)))))))) := by
  constructor <;> decide +kernel
/-- `nPr` above `== !=` above `=` above `;` -/
theorem top_ladder :
    parse [.ident "a", s .eq, n 1, s .perm, n 2, s .eq2, n 3, s .semi, .ident "a"] =
      some (.stmts (.assign "a" (.equality true (.bop .perm (N 1) (N 2)) (N 3))) (.ident "a")) := by decide +kernel
/-- redundant parentheses only add a `Parens` node around the same tree -/
theorem parens_example : parse [s .openP, n 1, s .add, n 2, s .closeP, s .mul, n 3] = some (.bop .mul (.parens (.bop .plus (N 1) (N 2))) (N 3)) := by
  decide +kernel

end Fend.C08
