/-
Rational layer: `BigRat::mul`, `BigRat::div` and negation are exact on values, for every representation
(unreduced fractions, any limb vectors).  `add` across different denominators goes through `gcd`/`div` on BigUint,
which are not proved yet and stay with the correspondence run.
-/
import FendModel.Model.BigRat
import FendModel.Proofs.BigUintMul
import FendModel.Proofs.BigUintCmp
import Mathlib.Tactic.Ring
import Mathlib.Tactic.FieldSimp
import Mathlib.Data.Rat.Defs
import Mathlib.Data.Nat.Cast.Field

namespace Fend
namespace BigRat
open BigUint

/-- the rational a `BigRat` denotes -/
def valQ (x : BigRat) : Rat := (if x.neg then -1 else 1) * ((val x.num : Nat) : Rat) / ((val x.den : Nat) : Rat)

/-- multiplication of rationals is exact (no hypothesis at all) -/
theorem mul_valQ (a b : BigRat) : valQ (mul a b) = valQ a * valQ b := by
  obtain ⟨an, anum, aden⟩ := a
  obtain ⟨bn, bnum, bden⟩ := b
  by_cases ha : ((val aden : Nat) : Rat) = 0
  · cases an <;> cases bn <;> simp [valQ, mul, signOfProduct, mul_val, ha]
  · by_cases hb : ((val bden : Nat) : Rat) = 0
    · cases an <;> cases bn <;> simp [valQ, mul, signOfProduct, mul_val, hb]
    · cases an <;> cases bn <;> simp [valQ, mul, signOfProduct, mul_val] <;> field_simp

/-- negation flips the sign of the value -/
theorem negate_valQ (a : BigRat) : valQ (negate a) = - valQ a := by
  obtain ⟨an, anum, aden⟩ := a
  cases an <;> simp [valQ, negate] <;> ring

theorem numIsZero_iff (b : BigRat) (hw : b.num.WF) : numIsZero b = true ↔ val b.num = 0 := by
  unfold numIsZero
  rw [beq_iff b.num (small 0) hw (by simp [BigUint.WF, B])]
  simp [val, small]

/-- division of rationals: refuses exactly a zero divisor, and is otherwise exact -/
theorem div_valQ (a b : BigRat) (hw : b.num.WF) :
    (numIsZero b = true → div a b = .error .divideByZero) ∧
    (numIsZero b = false → ∃ r, div a b = .ok r ∧ (val b.den ≠ 0 → valQ r = valQ a / valQ b)) := by
  constructor
  · intro h; simp [div, h]
  · intro h
    refine ⟨⟨signOfProduct a.neg b.neg, BigUint.mul a.num b.den, BigUint.mul a.den b.num⟩, by simp [div, h], fun hd => ?_⟩
    have hnz : val b.num ≠ 0 := by
      intro h0; have := (numIsZero_iff b hw).mpr h0; rw [this] at h; cases h
    have h1 : ((val b.num : Nat) : Rat) ≠ 0 := by exact_mod_cast hnz
    have h2 : ((val b.den : Nat) : Rat) ≠ 0 := by exact_mod_cast hd
    obtain ⟨an, anum, aden⟩ := a
    obtain ⟨bn, bnum, bden⟩ := b
    by_cases ha : ((val aden : Nat) : Rat) = 0
    · cases an <;> cases bn <;> simp [valQ, signOfProduct, mul_val, ha]
    · cases an <;> cases bn <;> simp [valQ, signOfProduct, mul_val] <;> field_simp

end BigRat
end Fend
