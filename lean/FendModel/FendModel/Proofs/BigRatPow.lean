/-
`BigRat::pow` with an integer exponent (a fraction whose denominator divides its numerator, reduced or not, of
either sign): the result is the integer power of the denoted rational, flagged exact; the only errors are 0^0,
an exponent beyond the machine word, and division by zero for 0^(negative).
-/
import FendModel.Proofs.BigRatField

namespace Fend
namespace BigUint

theorem powGo_WF (e : Nat) (result base : BigUint) (hr : result.WF) (hb : base.WF) :
    (powInternal.go e result base).WF := by
  induction e using Nat.strongRecOn generalizing result base with
  | _ e ih =>
    unfold powInternal.go
    split
    · rename_i h
      have hlt : e / 2 < e := Nat.div_lt_self h (by omega)
      apply ih (e / 2) hlt
      · split
        · exact mul_WF _ _ hr hb
        · exact hr
      · exact mul_WF _ _ hb hb
    · exact hr

theorem powInternal_WF (a : BigUint) (e : Nat) (ha : a.WF) : (powInternal a e).WF :=
  powGo_WF e _ a (by show 1 < B; decide) ha

theorem fits_iff (b : BigUint) (hb : b.WF) : b.fitsU64 = true ↔ val b < B := by
  constructor
  · intro h; rw [← get0_of_fits b h]; exact get_lt b hb 0
  · intro h
    cases b with
    | small n => rfl
    | large v =>
      cases v with
      | nil => rfl
      | cons x xs =>
        simp only [fitsU64, List.drop_succ_cons, List.drop_zero]
        apply all_zero_of_valL
        simp only [val, valL] at h
        by_contra hne
        have : 1 ≤ valL xs := Nat.one_le_iff_ne_zero.mpr hne
        have : B * 1 ≤ B * valL xs := Nat.mul_le_mul_left B this
        omega

/-- total description of `BigUint::pow` on well-formed operands -/
theorem pow_spec (a b : BigUint) (ha : a.WF) (hb : b.WF) :
    (val a = 0 ∧ val b = 0 → pow a b = .error .zeroPowZero) ∧
    (¬ (val a = 0 ∧ val b = 0) → val b ≠ 0 → B ≤ val b → pow a b = .error .exponentTooLarge) ∧
    (¬ (val a = 0 ∧ val b = 0) → (val b = 0 ∨ val b < B) → ∃ r, pow a b = .ok r ∧ val r = val a ^ val b ∧ r.WF) := by
  have hza := isZero_iff a
  have hzb := isZero_iff b
  refine ⟨fun ⟨h1, h2⟩ => by simp [pow, hza.mpr h1, hzb.mpr h2], fun hn hb0 hB => ?_, fun hn hfit => ?_⟩
  · have hbz : b.isZero = false := by
      cases h : b.isZero with
      | false => rfl
      | true => exact absurd (hzb.mp h) hb0
    have hf : b.fitsU64 = false := by
      cases h : b.fitsU64 with
      | false => rfl
      | true => have := (fits_iff b hb).mp h; omega
    simp [pow, hbz, hf]
  · by_cases hb0 : val b = 0
    · have haz : a.isZero = false := by
        cases h : a.isZero with
        | false => rfl
        | true => exact absurd ⟨hza.mp h, hb0⟩ hn
      exact ⟨small 1, by simp [pow, haz, hzb.mpr hb0], by rw [hb0]; rfl, by show 1 < B; decide⟩
    · have hbz : b.isZero = false := by
        cases h : b.isZero with
        | false => rfl
        | true => exact absurd (hzb.mp h) hb0
      have hlt : val b < B := by rcases hfit with h | h; exact absurd h hb0; exact h
      have hf : b.fitsU64 = true := (fits_iff b hb).mpr hlt
      refine ⟨powInternal a (b.get 0), by simp [pow, hbz, hf], ?_, powInternal_WF a _ ha⟩
      rw [powInternal_val, get0_of_fits b hf]

theorem isEven_val (a : BigUint) (ha : a.WF) : isEven a = .ok (decide (val a % 2 = 0)) := by
  have w2 : (small 2).WF := by show 2 < B; decide
  have w0 : (small 0).WF := B_pos
  obtain ⟨r, hr, hv, hw⟩ := rem_val a (small 2) ha w2 (by simp [val])
  simp only [isEven, hr, bind, Except.bind]
  congr 1
  have h2 : val (small 2) = 2 := rfl
  rw [h2] at hv
  by_cases h : val a % 2 = 0
  · rw [decide_eq_true h]; exact (beq_iff r _ hw w0).mpr (by rw [hv, h]; rfl)
  · rw [decide_eq_false h]
    cases hb : beq r (small 0) with
    | false => rfl
    | true => exact absurd (by rw [← hv]; exact (beq_iff r _ hw w0).mp hb) h

end BigUint

namespace BigRat
open BigUint

theorem denIsOne_iff (x : BigRat) (hw : x.den.WF) : denIsOne x = true ↔ val x.den = 1 := by
  unfold denIsOne
  rw [beq_iff x.den (small 1) hw (by show 1 < B; decide)]; rfl

/-- `simplify` keeps the value, the sign and well-formedness, and divides out the gcd -/
theorem simplify_spec (x : BigRat) (wx : WFQ x) (dx : val x.den ≠ 0) :
    ∃ r, simplify x = .ok r ∧ valQ r = valQ x ∧ WFQ r ∧ val r.den ≠ 0 ∧ r.neg = x.neg ∧
      val r.num = val x.num / Nat.gcd (val x.num) (val x.den) ∧
      val r.den = val x.den / Nat.gcd (val x.num) (val x.den) := by
  unfold simplify
  by_cases h1 : denIsOne x = true
  · have hd : val x.den = 1 := (denIsOne_iff x wx.2).mp h1
    simp only [h1, if_true]
    exact ⟨x, rfl, rfl, wx, dx, rfl, by rw [hd]; simp, by rw [hd]; simp⟩
  · simp only [h1]
    obtain ⟨g, hg, hgv, hgw⟩ := gcd_val x.num x.den wx.1 wx.2
    have hG0 : val g ≠ 0 := by rw [hgv]; exact fun h => dx (Nat.eq_zero_of_gcd_eq_zero_right h)
    obtain ⟨n, hn, hnv, hnw⟩ := div_val x.num g wx.1 hgw hG0
    obtain ⟨d, hd, hdv, hdw⟩ := div_val x.den g wx.2 hgw hG0
    have hGn : val g ∣ val x.num := by rw [hgv]; exact Nat.gcd_dvd_left _ _
    have hGd : val g ∣ val x.den := by rw [hgv]; exact Nat.gcd_dvd_right _ _
    have e1 : val n * val g = val x.num := by rw [hnv]; exact Nat.div_mul_cancel hGn
    have e2 : val d * val g = val x.den := by rw [hdv]; exact Nat.div_mul_cancel hGd
    have hd0 : val d ≠ 0 := by intro h0; rw [h0] at e2; omega
    refine ⟨⟨x.neg, n, d⟩, by simp [hg, hn, hd, bind, Except.bind], ?_, ⟨hnw, hdw⟩, hd0, rfl,
      by rw [← hgv]; exact hnv, by rw [← hgv]; exact hdv⟩
    have hGq : ((val g : Nat) : Rat) ≠ 0 := by exact_mod_cast hG0
    have hdq : ((val d : Nat) : Rat) ≠ 0 := by exact_mod_cast hd0
    have hxq : ((val x.den : Nat) : Rat) ≠ 0 := by exact_mod_cast dx
    have q1 : ((val n : Nat) : Rat) * (val g : Nat) = (val x.num : Nat) := by exact_mod_cast e1
    have q2 : ((val d : Nat) : Rat) * (val g : Nat) = (val x.den : Nat) := by exact_mod_cast e2
    simp only [valQ]
    rw [← q1, ← q2]
    field_simp

/-- the exponent denotes an integer: its denominator divides its numerator (reduced or not) -/
def IntExp (e : BigRat) : Prop := val e.den ≠ 0 ∧ val e.den ∣ val e.num

/-- the magnitude of an integer exponent -/
def expN (e : BigRat) : Nat := val e.num / val e.den

theorem simplify_int (e : BigRat) (we : WFQ e) (he : IntExp e) :
    ∃ e', simplify e = .ok e' ∧ WFQ e' ∧ val e'.den = 1 ∧ val e'.num = expN e ∧ e'.neg = e.neg := by
  obtain ⟨r, hr, _, hw, _, hn, hnum, hden⟩ := simplify_spec e we he.1
  have hg : Nat.gcd (val e.num) (val e.den) = val e.den := Nat.gcd_eq_right he.2
  rw [hg] at hnum hden
  exact ⟨r, hr, hw, by rw [hden]; exact Nat.div_self (Nat.pos_of_ne_zero he.1), hnum, hn⟩

theorem neg_one_pow_q (n : Nat) : (-1 : Rat) ^ n = if n % 2 = 0 then 1 else -1 := by
  split
  · rename_i h; exact Even.neg_one_pow (Nat.even_iff.mpr h)
  · rename_i h; exact Odd.neg_one_pow (Nat.odd_iff.mpr (by omega))

theorem pow_nonneg_int (fuel : Nat) (x e : BigRat) (wx : WFQ x) (dx : val x.den ≠ 0) (we : WFQ e) (he : IntExp e)
    (hneg : e.neg = false) :
    (val x.num = 0 ∧ expN e = 0 → pow (fuel + 1) x e = .error .zeroPowZero) ∧
    (¬ (val x.num = 0 ∧ expN e = 0) → B ≤ expN e → pow (fuel + 1) x e = .error .exponentTooLarge) ∧
    (¬ (val x.num = 0 ∧ expN e = 0) → expN e < B →
      ∃ r, pow (fuel + 1) x e = .ok (r, true) ∧ valQ r = valQ x ^ expN e ∧ WFQ r ∧ val r.den ≠ 0 ∧
        (val r.num = 0 ↔ val x.num = 0)) := by
  obtain ⟨x', hsx, hvx, wx', dx', hnx, hnumx, _⟩ := simplify_spec x wx dx
  obtain ⟨e', hse, we', hd1, hnum, hne⟩ := simplify_int e we he
  have hden1 : denIsOne e' = true := (denIsOne_iff e' we'.2).mpr hd1
  have hneg' : e'.neg = false := by rw [hne, hneg]
  have hx0 : val x'.num = 0 ↔ val x.num = 0 := by
    rw [hnumx]
    have hgpos : 0 < Nat.gcd (val x.num) (val x.den) := Nat.gcd_pos_of_pos_right _ (Nat.pos_of_ne_zero dx)
    constructor
    · intro h
      have := Nat.div_mul_cancel (Nat.gcd_dvd_left (val x.num) (val x.den))
      rw [h] at this; omega
    · intro h; rw [h]; simp
  have heven := isEven_val e'.num we'.1
  rw [hnum] at heven
  obtain ⟨p1, p2, p3⟩ := pow_spec x'.num e'.num wx'.1 we'.1
  obtain ⟨_, q2, q3⟩ := pow_spec x'.den e'.num wx'.2 we'.1
  rw [hnum] at p1 p2 p3 q2 q3
  rw [hx0] at p1 p2 p3
  have hnd : ¬ (val x'.den = 0 ∧ expN e = 0) := fun h => dx' h.1
  refine ⟨fun h => ?_, fun hn hB => ?_, fun hn hlt => ?_⟩
  · have hp := p1 h
    simp [pow, hsx, hse, hden1, hneg', heven, hp, bind, Except.bind]
  · have hn0 : expN e ≠ 0 := by have : 0 < B := B_pos; omega
    have hp := p2 hn hn0 hB
    simp [pow, hsx, hse, hden1, hneg', heven, hp, bind, Except.bind]
  · obtain ⟨pn, hpn, hpnv, hpnw⟩ := p3 hn (Or.inr hlt)
    obtain ⟨pd, hpd, hpdv, hpdw⟩ := q3 hnd (Or.inr hlt)
    have hpd0 : val pd ≠ 0 := by rw [hpdv]; exact pow_ne_zero _ dx'
    refine ⟨⟨if !x'.neg || decide (expN e % 2 = 0) then false else true, pn, pd⟩, ?_, ?_, ⟨hpnw, hpdw⟩, hpd0, ?_⟩
    · simp [pow, hsx, hse, hden1, hneg', heven, hpn, hpd, bind, Except.bind]
    · rw [← hvx]
      have hdq : ((val x'.den : Nat) : Rat) ≠ 0 := by exact_mod_cast dx'
      simp only [valQ, hpnv, hpdv]
      push_cast
      cases hxn : x'.neg with
      | false => simp [div_pow]
      | true =>
        by_cases hev : expN e % 2 = 0
        · simp only [hev, decide_true, Bool.not_true, Bool.false_or, if_true, Bool.false_eq_true, if_false]
          rw [div_pow, mul_pow, neg_one_pow_q, if_pos hev]
        · simp only [hev, decide_false, Bool.not_true, Bool.or_self, Bool.false_eq_true, if_false, if_true]
          rw [div_pow, mul_pow, neg_one_pow_q, if_neg hev]
    · show val pn = 0 ↔ val x.num = 0
      rw [hpnv, ← hx0]
      constructor
      · intro h; exact Nat.pow_eq_zero.mp h |>.1
      · intro h
        have hn0 : expN e ≠ 0 := fun h0 => hn ⟨hx0.mp h, h0⟩
        rw [h]; exact zero_pow hn0

theorem valQ_one : valQ (ofNat64 1) = 1 := by simp [valQ, ofNat64, val]

theorem pow_neg_int (fuel : Nat) (x e : BigRat) (wx : WFQ x) (dx : val x.den ≠ 0) (we : WFQ e) (he : IntExp e)
    (hneg : e.neg = true) :
    (val x.num = 0 ∧ expN e = 0 → pow (fuel + 2) x e = .error .zeroPowZero) ∧
    (¬ (val x.num = 0 ∧ expN e = 0) → B ≤ expN e → pow (fuel + 2) x e = .error .exponentTooLarge) ∧
    (val x.num = 0 → expN e ≠ 0 → expN e < B → pow (fuel + 2) x e = .error .divideByZero) ∧
    (val x.num ≠ 0 → expN e < B →
      ∃ r, pow (fuel + 2) x e = .ok (r, true) ∧ valQ r = (valQ x ^ expN e)⁻¹) := by
  obtain ⟨x', hsx, hvx, wx', dx', hnx, hnumx, _⟩ := simplify_spec x wx dx
  obtain ⟨e', hse, we', hd1, hnum, hne⟩ := simplify_int e we he
  have hden1 : denIsOne e' = true := (denIsOne_iff e' we'.2).mpr hd1
  have hneg' : e'.neg = true := by rw [hne, hneg]
  have hx0 : val x'.num = 0 ↔ val x.num = 0 := by
    rw [hnumx]
    constructor
    · intro h
      have := Nat.div_mul_cancel (Nat.gcd_dvd_left (val x.num) (val x.den))
      rw [h] at this; omega
    · intro h; rw [h]; simp
  have we'' : WFQ { e' with neg := false } := we'
  have he'' : IntExp { e' with neg := false } := ⟨by show val e'.den ≠ 0; omega, by show val e'.den ∣ val e'.num; rw [hd1]; exact Nat.one_dvd _⟩
  have hn'' : expN { e' with neg := false } = expN e := by
    show val e'.num / val e'.den = expN e
    rw [hd1, Nat.div_one, hnum]
  obtain ⟨a1, a2, a3⟩ := pow_nonneg_int fuel x' { e' with neg := false } wx' dx' we'' he'' rfl
  rw [hn'', hx0] at a1 a2 a3
  have hunf : pow (fuel + 2) x e = (match pow (fuel + 1) x' { e' with neg := false } with
      | .error err => .error err
      | .ok (r, ex) => match div (ofNat64 1) r with
        | .error err => .error err
        | .ok q => .ok (q, ex)) := by
    conv_lhs => unfold pow
    simp only [hsx, hse, hden1, hneg', bind, Except.bind, Bool.not_true, Bool.and_false, Bool.false_eq_true, if_false, if_true]
    cases pow (fuel + 1) x' { e' with neg := false } with
    | error err => rfl
    | ok v =>
      obtain ⟨r, ex⟩ := v
      simp only []
      cases div (ofNat64 1) r <;> rfl
  refine ⟨fun h => by rw [hunf, a1 h], fun hn hB => by rw [hunf, a2 hn hB], fun h0 hn0 hlt => ?_, fun h0 hlt => ?_⟩
  · obtain ⟨r, hr, _, hw, _, hr0⟩ := a3 (fun h => hn0 h.2) hlt
    have hz : numIsZero r = true := (numIsZero_iff r hw.1).mpr (hr0.mpr h0)
    rw [hunf, hr]
    simp only [(div_valQ (ofNat64 1) r hw.1).1 hz]
  · obtain ⟨r, hr, hv, hw, hd, hr0⟩ := a3 (fun h => h0 h.1) hlt
    have hz : numIsZero r = false := by
      cases hzz : numIsZero r with
      | false => rfl
      | true => exact absurd (hr0.mp ((numIsZero_iff r hw.1).mp hzz)) h0
    obtain ⟨q, hq, hqv⟩ := (div_valQ (ofNat64 1) r hw.1).2 hz
    refine ⟨q, by rw [hunf, hr]; simp only [hq], ?_⟩
    rw [hqv hd, valQ_one, hv, hvx, one_div]

end BigRat
end Fend
