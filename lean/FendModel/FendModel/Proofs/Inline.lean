import FendModel.Model.Inline

namespace Fend.Inline

theorem reassemble_append (a b : List Part) : reassemble (a ++ b) = reassemble a ++ reassemble b := by
  induction a with
  | nil => rfl
  | cons p ps ih => cases p <;> simp [reassemble, ih]

/-- text consumed so far, as the scanner state accounts for it -/
def consumed {σ} (st : St σ) : List Char :=
  reassemble st.parts.reverse ++ (if st.inExpr then ['[', '['] else []) ++ st.cur.reverse

theorem step_consumed {σ} (eval : σ → List Char → σ × Res) (st : St σ) (ch : Char) :
    consumed (step eval st ch) = consumed st ++ [ch] := by
  unfold step
  simp only []
  generalize (if ch = '`' then !st.inTicks else st.inTicks) = it
  split
  · rename_i rest heq
    injection heq with h1 h2
    by_cases hc : (!st.inExpr && !it) = true
    · simp only [hc, if_true]
      simp only [Bool.and_eq_true, Bool.not_eq_true'] at hc
      simp [consumed, reassemble_append, reassemble, hc.1, h1, h2]
    · simp only [hc]
      simp [consumed, h1, h2]
  · rename_i rest heq
    injection heq with h1 h2
    by_cases hc : (st.inExpr && !it) = true
    · simp only [hc, if_true]
      simp only [Bool.and_eq_true, Bool.not_eq_true'] at hc
      simp [consumed, reassemble_append, reassemble, hc.1, h1, h2]
    · simp only [hc]
      simp [consumed, h1, h2]
  · simp [consumed]

theorem foldl_consumed {σ} (eval : σ → List Char → σ × Res) (st : St σ) (input : List Char) :
    consumed (input.foldl (step eval) st) = consumed st ++ input := by
  induction input generalizing st with
  | nil => simp
  | cons c cs ih => simp [List.foldl_cons, ih, step_consumed]

theorem finish_reassemble {σ} (st : St σ) : reassemble (finish st) = consumed st := by
  simp [finish, consumed, reassemble_append, reassemble]

/-- every evaluated part carries exactly what `eval` returned for its source -/
def PartsOk {σ} (eval : σ → List Char → σ × Res) : List Part → Prop
  | [] => True
  | .unprocessed _ :: ps => PartsOk eval ps
  | .evaluated src r :: ps => (∃ c, (eval c src).2 = r) ∧ PartsOk eval ps

theorem step_partsOk {σ} (eval : σ → List Char → σ × Res) (st : St σ) (ch : Char)
    (h : PartsOk eval st.parts) : PartsOk eval (step eval st ch).parts := by
  unfold step
  simp only []
  generalize (if ch = '`' then !st.inTicks else st.inTicks) = it
  split
  · by_cases hc : (!st.inExpr && !it) = true
    · simp only [hc, if_true, PartsOk]; exact h
    · simp only [hc]; exact h
  · by_cases hc : (st.inExpr && !it) = true
    · simp only [hc, if_true, PartsOk]; exact ⟨⟨st.ctx, rfl⟩, h⟩
    · simp only [hc]; exact h
  · exact h

theorem foldl_partsOk {σ} (eval : σ → List Char → σ × Res) (st : St σ) (input : List Char)
    (h : PartsOk eval st.parts) : PartsOk eval (input.foldl (step eval) st).parts := by
  induction input generalizing st with
  | nil => exact h
  | cons c cs ih => exact ih _ (step_partsOk eval st c h)

theorem partsOk_append {σ} (eval : σ → List Char → σ × Res) (a b : List Part)
    (ha : PartsOk eval a) (hb : PartsOk eval b) : PartsOk eval (a ++ b) := by
  induction a with
  | nil => exact hb
  | cons p ps ih => cases p <;> simp_all [PartsOk]

theorem partsOk_reverse {σ} (eval : σ → List Char → σ × Res) (a : List Part)
    (ha : PartsOk eval a) : PartsOk eval a.reverse := by
  induction a with
  | nil => exact ha
  | cons p ps ih =>
    rw [List.reverse_cons]
    cases p with
    | unprocessed s => exact partsOk_append _ _ _ (ih ha) (by simp [PartsOk])
    | evaluated src r => exact partsOk_append _ _ _ (ih ha.2) (by simp only [PartsOk]; exact ⟨ha.1, trivial⟩)

end Fend.Inline
