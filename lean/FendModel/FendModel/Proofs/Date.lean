import FendModel.Model.Date
import Mathlib.Tactic.IntervalCases

namespace Fend.Date

theorem isLeap_iff (y : Int) (hy : 0 ≤ y) : isLeap y = true ↔ specLeap y := by
  unfold isLeap specLeap
  rw [Int.tmod_eq_emod_of_nonneg hy, Int.tmod_eq_emod_of_nonneg hy, Int.tmod_eq_emod_of_nonneg hy]
  by_cases h1 : y % 400 = 0
  · simp [h1]
  · by_cases h2 : y % 100 = 0
    · simp [h1, h2]
    · simp [h1, h2]

theorem monthLen_eq (m : Nat) (y : Int) (hy : 0 ≤ y) (h1 : 1 ≤ m) (h2 : m ≤ 12) :
    monthLen m y = specMonthLen m y := by
  unfold monthLen specMonthLen
  have := isLeap_iff y hy
  interval_cases m <;> simp <;> (by_cases hl : specLeap y <;> simp_all)

/-- `next` of a real date (year below the i32 limit) is the next ordinal day and is real -/
theorem next_spec (d : Date) (h : Real d) (hmax : d.year < i32Max) :
    ∃ d', next d = some d' ∧ ordinal d' = ordinal d + 1 ∧ Real d' := by
  obtain ⟨hy, hm1, hm2, hd1, hd2⟩ := h
  obtain ⟨y, m, dd⟩ := d
  simp only at *
  unfold next
  simp only [monthLen_eq m y (by omega) hm1 hm2]
  by_cases hlt : dd < specMonthLen m y
  · simp only [hlt, if_true]
    refine ⟨_, rfl, ?_, ?_⟩
    · simp only [ordinal]; push_cast; omega
    · unfold Real; simp only; omega
  · simp only [hlt, if_false]
    have hdd : dd = specMonthLen m y := by omega
    by_cases h12 : m = 12
    · subst h12
      have hyn : yearNext y = some (y + 1) := by
        unfold yearNext i32Max; unfold i32Max at hmax
        have : ¬ y = -1 := by omega
        have : ¬ y + 1 > 2147483647 := by omega
        simp [*]
      simp only [if_true, hyn, Option.map_some]
      refine ⟨_, rfl, ?_, ?_⟩
      · simp only [ordinal, daysBefore, specMonthLen] at *
        subst hdd
        by_cases hl : specLeap y <;> by_cases hl' : specLeap (y + 1) <;>
          simp only [hl, hl', if_true, if_false] <;> unfold specLeap at hl hl' <;> push_cast <;> omega
      · unfold Real specMonthLen; simp only; omega
    · simp only [h12, if_false]
      refine ⟨_, rfl, ?_, ?_⟩
      · simp only [ordinal, monthNext, h12, if_false]
        subst hdd
        interval_cases m <;> simp only [daysBefore, specMonthLen] <;>
          by_cases hl : specLeap y <;> simp [hl] <;> omega
      · unfold Real monthNext; simp only [h12, if_false]
        interval_cases m <;> simp [specMonthLen] <;> (try split) <;> omega

/-- `prev` undoes `next` on real dates -/
theorem prev_next (d : Date) (h : Real d) (hmax : d.year < i32Max) :
    ∃ d', next d = some d' ∧ prev d' = some d := by
  obtain ⟨hy, hm1, hm2, hd1, hd2⟩ := h
  obtain ⟨y, m, dd⟩ := d
  simp only at *
  unfold next
  simp only [monthLen_eq m y (by omega) hm1 hm2]
  by_cases hlt : dd < specMonthLen m y
  · simp only [hlt, if_true]
    refine ⟨_, rfl, ?_⟩
    unfold prev; simp only
    have : dd + 1 > 1 := by omega
    simp [this]
  · simp only [hlt, if_false]
    have hdd : dd = specMonthLen m y := by omega
    by_cases h12 : m = 12
    · subst h12
      have hyn : yearNext y = some (y + 1) := by
        unfold yearNext i32Max; unfold i32Max at hmax
        have : ¬ y = -1 := by omega
        have : ¬ y + 1 > 2147483647 := by omega
        simp [*]
      simp only [if_true, hyn, Option.map_some]
      refine ⟨_, rfl, ?_⟩
      unfold prev yearPrev i32Min; simp only
      have h1 : ¬ y + 1 = 1 := by omega
      have h2 : ¬ y + 1 - 1 < -2147483648 := by omega
      simp [h1, hdd, specMonthLen]
      omega
    · simp only [h12, if_false]
      refine ⟨_, rfl, ?_⟩
      unfold prev; simp only
      have hmn : monthNext m ≠ 1 := by unfold monthNext; simp [h12]; omega
      have hpm : monthPrev (monthNext m) = m := by unfold monthPrev monthNext; simp [h12]; omega
      simp [hmn, hpm, monthLen_eq m y (by omega) hm1 hm2, hdd]

/-- the weekday computed by `Date::day_of_week` is the ordinal day mod 7 (0 = Sunday; day 1 is a
Monday), for every real date -/
theorem dayOfWeek_spec (d : Date) (h : Real d) :
    dayOfWeek d = some ((ordinal d) % 7).toNat := by
  obtain ⟨hy, hm1, hm2, hd1, hd2⟩ := h
  obtain ⟨y, m, dd⟩ := d
  simp only at *
  unfold dayOfWeek
  simp only
  have hy1 : (0 : Int) ≤ y - 1 := by omega
  rw [Int.tmod_eq_emod_of_nonneg hy1, Int.tmod_eq_emod_of_nonneg hy1, Int.tmod_eq_emod_of_nonneg hy1]
  have hd1' : (0 : Int) ≤ 1 + 5 * ((y - 1) % 4) + 4 * ((y - 1) % 100) + 6 * ((y - 1) % 400) := by omega
  rw [Int.tmod_eq_emod_of_nonneg hd1']
  have hleap := isLeap_iff y (by omega)
  have hoff : 0 ≤ (monthOffsets m).1 ∧ 0 ≤ (monthOffsets m).2 := by
    interval_cases m <;> simp [monthOffsets]
  have hnn : (0 : Int) ≤ (1 + 5 * ((y - 1) % 4) + 4 * ((y - 1) % 100) + 6 * ((y - 1) % 400)) % 7
      + (if isLeap y = true then (monthOffsets m).2 else (monthOffsets m).1) + ((dd : Int) - 1) := by
    split <;> omega
  rw [Int.tmod_eq_emod_of_nonneg hnn]
  have hr : ∀ z : Int, (0 ≤ z % 7 ∧ z % 7 ≤ 6) := by intro z; omega
  simp only [hr, and_self, if_true]
  congr 2
  simp only [ordinal]
  by_cases hl : specLeap y
  · have hl' : isLeap y = true := hleap.mpr hl
    simp only [hl', if_true]
    have hL : (if specLeap y then (1 : Int) else 0) = 1 := by simp [hl]
    unfold specLeap at hl
    interval_cases m <;> simp only [monthOffsets, daysBefore, hL] <;> omega
  · have hl' : ¬ isLeap y = true := fun h => hl (hleap.mp h)
    have hl'' : isLeap y = false := by simpa using hl'
    simp only [hl'', Bool.false_eq_true, if_false]
    have hL : (if specLeap y then (1 : Int) else 0) = 0 := by simp [hl]
    unfold specLeap at hl
    interval_cases m <;> simp only [monthOffsets, daysBefore, hL] <;> omega

theorem next_year_le (d d' : Date) (hy : 1 ≤ d.year) (h : next d = some d') :
    d'.year ≤ d.year + 1 ∧ d.year ≤ d'.year := by
  unfold next at h
  split at h
  · injection h with h; subst h; simp
  · split at h
    · unfold yearNext at h
      split at h
      · omega
      · split at h
        · simp at h
        · simp at h; subst h; simp
    · injection h with h; subst h; simp

theorem subDays_snoc (n : Nat) (x : Date) : subDays (n + 1) x = (subDays n x).bind prev := by
  induction n generalizing x with
  | zero => simp only [subDays, Option.bind_some]; cases hp : prev x <;> simp
  | succ n ih =>
    rw [subDays]
    cases hp : prev x with
    | none => simp [subDays, hp]
    | some x' => simp only []; rw [ih x']; simp [subDays, hp]

/-- adding `n` days walks `n` ordinal days forward through real dates, and subtracting the same
`n` days returns the original date -/
theorem addDays_spec (n : Nat) (d : Date) (h : Real d) (hmax : d.year + n < i32Max) :
    ∃ d', addDays n d = some d' ∧ ordinal d' = ordinal d + n ∧ Real d' ∧ d'.year ≤ d.year + n
      ∧ subDays n d' = some d := by
  induction n generalizing d with
  | zero => exact ⟨d, rfl, by simp, h, by simp, rfl⟩
  | succ n ih =>
    have hmax1 : d.year < i32Max := by push_cast at hmax; omega
    obtain ⟨d1, hn, ho, hr⟩ := next_spec d h hmax1
    obtain ⟨hyl, _⟩ := next_year_le d d1 h.1 hn
    obtain ⟨d', ha, ho', hr', hy', hs⟩ := ih d1 hr (by push_cast at hmax; omega)
    refine ⟨d', by simp [addDays, hn, ha], by rw [ho', ho]; push_cast; omega, hr', by push_cast; omega, ?_⟩
    rw [subDays_snoc, hs]
    obtain ⟨d1', hn', hp⟩ := prev_next d h hmax1
    rw [hn] at hn'; injection hn' with e; subst e
    simpa using hp

/-- consecutive days have consecutive weekdays (across month, year, century and leap-day
boundaries alike) -/
theorem weekday_succ (d : Date) (h : Real d) (hmax : d.year < i32Max) :
    ∃ d' w, next d = some d' ∧ dayOfWeek d = some w ∧ dayOfWeek d' = some ((w + 1) % 7) := by
  obtain ⟨d', hn, ho, hr⟩ := next_spec d h hmax
  refine ⟨d', _, hn, dayOfWeek_spec d h, ?_⟩
  rw [dayOfWeek_spec d' hr, ho]
  congr 1
  omega

theorem yearsBack_spec (k : Nat) (y : Int) (h : 1 ≤ y - k) : yearsBack k y = some (y - k) := by
  induction k generalizing y with
  | zero => simp [yearsBack]
  | succ k ih =>
    have hp : yearPrev y = some (y - 1) := by
      unfold yearPrev i32Min
      have h1 : ¬ y = 1 := by push_cast at h; omega
      have h2 : ¬ y - 1 < -2147483648 := by push_cast at h; omega
      simp [h1, h2]
    simp only [yearsBack, hp, Option.bind_some]
    rw [ih (y - 1) (by push_cast at h ⊢; omega)]
    push_cast; congr 1; omega

theorem monthsBack_spec (k : Nat) (y : Int) (m : Nat) (hm1 : 1 ≤ m) (hm2 : m ≤ 12)
    (h : 12 ≤ 12 * y + m - 1 - k) :
    ∃ y' m', monthsBack k (y, m) = some (y', m') ∧ 1 ≤ m' ∧ m' ≤ 12 ∧
      12 * y' + (m' : Int) - 1 = 12 * y + m - 1 - k := by
  induction k generalizing y m with
  | zero => exact ⟨y, m, rfl, hm1, hm2, by simp⟩
  | succ k ih =>
    unfold monthsBack
    by_cases h1 : m = 1
    · subst h1
      have hp : yearPrev y = some (y - 1) := by
        unfold yearPrev i32Min
        have h1 : ¬ y = 1 := by push_cast at h; omega
        have h2 : ¬ y - 1 < -2147483648 := by push_cast at h; omega
        simp [h1, h2]
      simp only [if_true, hp, Option.bind_some]
      obtain ⟨y', m', he, a, b, c⟩ := ih (y - 1) 12 (by omega) (by omega) (by push_cast at h ⊢; omega)
      exact ⟨y', m', he, a, b, by push_cast at c ⊢; omega⟩
    · simp only [h1, if_false]
      have hmp : monthPrev m = m - 1 := by unfold monthPrev; simp [h1]
      rw [hmp]
      obtain ⟨y', m', he, a, b, c⟩ := ih y (m - 1) (by omega) (by omega) (by push_cast at h ⊢; omega)
      exact ⟨y', m', he, a, b, by push_cast at c ⊢; omega⟩

/-- `- n months` (and `- n years` with `12 n`): lands on the same day-of-month of the month
`n` calendar months earlier, or reports that that date does not exist; never panics while the
result stays in year ≥ 1 -/
theorem diffMonthsBack_spec (d : Date) (n : Nat) (h : Real d)
    (hr : 12 ≤ 12 * d.year + d.month - 1 - n) :
    ∃ (y' : Int) (m' : Nat), 1 ≤ m' ∧ m' ≤ 12 ∧ 1 ≤ y' ∧ 12 * y' + (m' : Int) - 1 = 12 * d.year + d.month - 1 - n ∧
      diffMonthsBack d n = (if d.day ≤ specMonthLen m' y'
        then .ok { year := y', month := m', day := d.day } else .nonExistent y' m' d.day) := by
  obtain ⟨hy, hm1, hm2, hd1, hd2⟩ := h
  unfold diffMonthsBack
  have hdiv := Nat.div_add_mod n 12
  have hlt := Nat.mod_lt n (by decide : 12 > 0)
  rw [yearsBack_spec (n / 12) d.year (by omega)]
  simp only
  obtain ⟨y', m', he, a, b, c⟩ := monthsBack_spec (n % 12) (d.year - ↑(n / 12)) d.month hm1 hm2 (by omega)
  rw [he]
  simp only
  have hy' : 1 ≤ y' := by omega
  refine ⟨y', m', a, b, hy', by omega, ?_⟩
  rw [monthLen_eq m' y' (by omega) a b]
  by_cases hc : d.day ≤ specMonthLen m' y'
  · have : ¬ d.day > specMonthLen m' y' := by omega
    simp [hc, this]
  · have : d.day > specMonthLen m' y' := by omega
    simp [hc, this]

theorem parseNum_go_bound (num : Nat) (cs : List Nat) (r : Nat × List Nat)
    (h : parseNum.go num cs = some r) (hn : num ≤ 2147483647) : r.1 ≤ 2147483647 := by
  induction cs generalizing num with
  | nil => simp [parseNum.go] at h; subst h; exact hn
  | cons c rest ih =>
    unfold parseNum.go at h
    split at h
    · injection h with h; subst h; exact hn
    · split at h
      · simp at h
      · exact ih _ h (by omega)

/-- a date literal that the parser accepts names a real Gregorian date of year 1000 … i32::MAX -/
theorem parseDate_sound (cs : List Nat) (d : Date) (h : parseDate cs = some d) :
    Real d ∧ 1000 ≤ d.year ∧ d.year ≤ i32Max := by
  unfold parseDate at h
  simp only [Option.bind_eq_bind] at h
  cases h1 : parseNum cs false with
  | none => simp [h1] at h
  | some p1 =>
    obtain ⟨y, cs1⟩ := p1
    simp only [h1, Option.bind_some] at h
    have hyb : y ≤ 2147483647 := by
      unfold parseNum at h1
      split at h1
      · simp at h1
      · split at h1
        · simp at h1
        · rename_i d0 hd0
          split at h1
          · simp at h1
          · have : d0 ≤ 2147483647 := by
              unfold digitVal at hd0; split at hd0 <;> simp at hd0; omega
            exact parseNum_go_bound _ _ _ h1 this
    split at h
    · rename_i cs2
      split at h
      · simp at h
      · rename_i hy
        cases h2 : parseNum cs2 true with
        | none => simp [h2] at h
        | some p2 =>
          obtain ⟨m, cs3⟩ := p2
          simp only [h2, Option.bind_some] at h
          split at h
          · rename_i cs4
            split at h
            · simp at h
            · rename_i hm
              cases h3 : parseNum cs4 true with
              | none => simp [h3] at h
              | some p3 =>
                obtain ⟨dd, cs5⟩ := p3
                simp only [h3, Option.bind_some] at h
                split at h
                · simp at h
                · rename_i hdd
                  split at h
                  · injection h with h; subst h
                    have hm' : 1 ≤ m ∧ m ≤ 12 := by omega
                    rw [monthLen_eq m y (by omega) hm'.1 hm'.2] at hdd
                    refine ⟨⟨by simp only; omega, hm'.1, hm'.2, by simp only; omega, by simp only; omega⟩,
                      by simp only; omega, by simp only [i32Max]; omega⟩
                  · simp at h
          · simp at h
    · simp at h

end Fend.Date
