import FendModel.Proofs.BigUintAdd

namespace Fend.BigUint

theorem B_pos : 0 < B := by decide

theorem valL_zero_of_all (v : List Nat) (h : v.all (· == 0) = true) : valL v = 0 := by
  induction v with
  | nil => rfl
  | cons x xs ih =>
    simp only [List.all_cons, Bool.and_eq_true, beq_iff_eq] at h
    simp [valL, h.1, ih h.2]

theorem all_zero_of_valL (v : List Nat) (h : valL v = 0) : v.all (· == 0) = true := by
  induction v with
  | nil => rfl
  | cons x xs ih =>
    simp only [valL] at h
    have hx : x = 0 := by omega
    have hr : valL xs = 0 := by
      have : B * valL xs = 0 := by omega
      rcases Nat.mul_eq_zero.mp this with h | h
      · exact absurd h (by decide)
      · exact h
    simp [hx, ih hr]

theorem isZero_iff (b : BigUint) : b.isZero = true ↔ val b = 0 := by
  cases b with
  | small n => simp [isZero, val]
  | large v => exact ⟨valL_zero_of_all v, all_zero_of_valL v⟩

theorem mulLoop_spec (sc other : BigUint) (n i : Nat) (acc : BigUint) (hle : i ≤ n) :
    val (mulLoop sc other n i acc)
      = val acc + val sc * sumFrom (fun k => other.get k * B ^ k) n i := by
  fun_induction mulLoop sc other n i acc with
  | case1 i acc hlt ih =>
    rw [ih (by omega), addAssignInternal_val]
    conv => rhs; rw [sumFrom]
    simp only [hlt, dite_true]; ring
  | case2 i acc hlt =>
    rw [sumFrom]; simp [hlt]

theorem sum_limbs_val (other : BigUint) :
    sumFrom (fun k => other.get k * B ^ k) other.valueLen 0 = val other := by
  have := sumFrom_limbs other.limbs 0 other.valueLen (by rw [valueLen_eq_limbs]; omega)
  simp only [ge_iff_le, Nat.zero_le, if_true, Nat.sub_zero, pow_zero, one_mul] at this
  rw [val_eq_limbs, ← this]
  apply sumFrom_congr
  intro k _ _
  simp [get_eq_limbs]

theorem mulInternal_val (a b : BigUint) : val (mulInternal a b) = val a * val b := by
  unfold mulInternal
  by_cases hz : (a.isZero || b.isZero) = true
  · simp only [hz, if_true]
    rcases Bool.or_eq_true _ _ |>.mp hz with h | h
    · rw [(isZero_iff a).mp h]; simp [val]
    · rw [(isZero_iff b).mp h]; simp [val]
  · simp only [hz]
    rw [if_neg (by simp), mulLoop_spec _ _ _ _ _ (by omega), sum_limbs_val]
    simp [val, valL]

/-- multiplication is exact for every pair of limb vectors, canonical or not -/
theorem mul_val (a b : BigUint) : val (a.mul b) = val a * val b := by
  unfold mul
  split
  · split
    · simp [val]
    · rw [mulInternal_val]
  · rw [mulInternal_val]

end Fend.BigUint
