"""C20 — a damaged exchange-rate cache cannot crash fend or yield wrong rates."""
import os, re, shutil, subprocess, time
from concurrent.futures import ThreadPoolExecutor
from vlib import core

MODULE = "FendModel.Props.C20"
REL = "FendModel/Props/C20.lean"

EU_RATES = [("USD", "1.0876"), ("JPY", "161.03"), ("BGN", "1.9558"), ("CZK", "25.267"), ("DKK", "7.4589"), ("GBP", "0.85610"), ("HUF", "391.83"), ("PLN", "4.3128"),
            ("RON", "4.9769"), ("SEK", "11.3515"), ("CHF", "0.9702"), ("NZD", "1.8991"), ("ZAR", "19.6337")]
UN_RATES = [("AFN", "71.25"), ("EUR", "0.921"), ("GBP", "0.794"), ("JPY", "151.7"), ("CHF", "0.8923"), ("INR", "83.42")]

def eu_file(ts):
    lines = ["<?xml version=\"1.0\" encoding=\"UTF-8\"?>", "<gesmes:Envelope xmlns:gesmes=\"http://www.gesmes.org/xml/2002-08-01\" xmlns=\"http://www.ecb.int/vocabulary/2002-08-01/eurofxref\">",
             "\t<gesmes:subject>Reference rates</gesmes:subject>", "\t<gesmes:Sender>", "\t\t<gesmes:name>European Central Bank</gesmes:name>", "\t</gesmes:Sender>", "\t<Cube>",
             "\t\t<Cube time='2026-09-29'>"]
    lines += [f"\t\t\t<Cube currency='{c}' rate='{r}'/>" for c, r in EU_RATES]
    lines += ["\t\t</Cube>", "\t</Cube>", "</gesmes:Envelope>"]
    return f"{ts};" + "\n".join(lines)

def un_file(ts):
    body = "<?xml version=\"1.0\" encoding=\"UTF-8\"?>\r\n<UN_OPERATIONAL_RATES_DATASET>"
    for c, r in UN_RATES:
        body += f"\r\n\t<UN_OPERATIONAL_RATES>\r\n\t\t<f_curr_code>{c}</f_curr_code>\r\n\t\t<f_curr_desc>x</f_curr_desc>\r\n\t\t<dt_eff>01 Sep 2026</dt_eff>\r\n\t\t<rate>{r}</rate>"
        body += "\r\n\t</UN_OPERATIONAL_RATES>" if (c, r) != UN_RATES[-1] else ""
    body += "\r\n\t</UN_OPERATIONAL_RATES>\r\n</UN_OPERATIONAL_RATES_DATASET>"
    return f"{ts};" + body

def run_fend(fend, workdir, idx, src, contents, currency):
    d = os.path.join(workdir, f"w{idx % 64}")
    cfg, cache = os.path.join(d, "cfg"), os.path.join(d, "cache")
    os.makedirs(cfg, exist_ok=True); os.makedirs(cache, exist_ok=True)
    with open(os.path.join(cfg, "config.toml"), "w") as f:
        f.write(f'exchange-rate-source = "{src.upper()}"\nenable-internet-access = true\nexchange-rate-max-age = 259200\n')
    name = "eurofxref-daily.xml.cache" if src == "eu" else "xsql2XML.php.cache"
    for fn in os.listdir(cache):
        os.remove(os.path.join(cache, fn))
    with open(os.path.join(cache, name), "wb") as f:
        f.write(contents)
    base = "EUR" if src == "eu" else "USD"
    env = {**os.environ, "FEND_CONFIG_DIR": cfg, "FEND_CACHE_DIR": cache, "FEND_STATE_DIR": d, "NO_COLOR": "1"}
    try:
        p = subprocess.run([fend, f"1 {base} to {currency}"], capture_output=True, env=env, timeout=20)
    except subprocess.TimeoutExpired:
        return "timeout"
    out, err = p.stdout.decode("utf-8", "replace"), p.stderr.decode("utf-8", "replace")
    if p.returncode == 101 or "panicked" in err:
        return "panic " + err.strip().replace("\n", " ")[:200]
    if p.returncode != 0:
        return "err " + err.strip().replace("\n", " ")[:120]
    return "ok " + out.strip()

def close(a, b):
    return abs(a - b) <= 1e-6 * max(1.0, abs(a), abs(b))

def run(ctx):
    quick = ctx.tier == "quick"
    ctx.lean_build([MODULE])
    ctx.audit(MODULE, REL)
    if not quick:
        ctx.leanchecker(MODULE)
    fend = ctx.cli()
    if fend is None:
        ctx.proof_failures.append({"file": "cli", "decl": "cargo build -p fend", "line": 0, "msg": getattr(ctx, "harness_error", "")})
        return ctx.finish()
    r = ctx.rng
    now = int(time.time())
    cases = []   # (src, contents bytes, currency, tag)
    for src, mk, rates in (("eu", eu_file, EU_RATES), ("un", un_file, UN_RATES)):
        good = mk(now - 100).encode()
        curs = [c for c, _ in rates]
        # every prefix of the representative file (sampled in the quick tier), asking for a currency near the cut and for the last one
        cuts = range(len(good) + 1) if not quick else sorted(set(list(range(0, len(good) + 1, 3)) + list(range(0, 64)) + [len(good), len(good) - 1] + [good.find(c.encode()) + k for c in curs for k in range(-2, 22)]))
        for n in cuts:
            if 0 <= n <= len(good):
                cur = curs[-1] if r.random() < 0.5 else r.choice(curs)
                # the currency whose line is being cut, if any
                before = good[:n].decode("utf-8", "ignore")
                found = [c for c in curs if c in before]
                if found and r.random() < 0.7: cur = found[-1]
                cases.append((src, good[:n], cur, "prefix"))
        # single-character substitutions at structural positions
        pos = range(len(good)) if not quick else sorted(set(r.randrange(len(good)) for _ in range(250)) | {good.find(b"<rate>") + k for k in range(6)} | {good.find(b"currency='") + k for k in range(14)})
        for p_ in pos:
            if not (0 <= p_ < len(good)): continue
            for ch in (r.sample(["'", "<", ">", "0", "9", ".", " ", "x", ";", "é", "€", "\n", "e", "-", " "], 3) if quick else ["'", "<", ">", "0", "9", ".", " ", "x", ";", "é", "€", "\n", "e", "-", " "]):
                b = good[:p_] + ch.encode() + good[p_ + 1:]
                cases.append((src, b, r.choice(curs), "subst"))
        # framing: timestamps
        for ts in ("", "abc", str(now + 10**6), str(now - 10**7), "+" + str(now - 5), "-5", str(2**64), " " + str(now)):
            cases.append((src, (ts + ";" + mk(0).split(";", 1)[1]).encode(), curs[0], "frame"))
        cases.append((src, mk(now - 100).replace(";", "", 1).encode(), curs[0], "frame"))
        cases.append((src, good + b"\xff\xfe", curs[0], "nonutf8"))
        cases.append((src, good, "XXX", "unknown"))
        for _ in range(100 if quick else 3000):
            b = bytearray(good)
            for _k in range(r.randint(1, 4)):
                i = r.randrange(len(b)); b[i:i + r.randint(0, 2)] = bytes(r.randrange(256) for _ in range(r.randint(0, 3)))
            cases.append((src, bytes(b), r.choice(curs), "random"))
    # a multi-byte character straddling byte 3 of the currency code, and fewer than 3 bytes
    eu_good = eu_file(now - 100)
    for bad in ("<Cube currency='", "<Cube currency='U", "<Cube currency='US", "<Cube currency='U€D' rate='1.1'/>", "<Cube currency='€' rate='1'/>", "<Cube currency='USD"):
        cases.append(("eu", (eu_good.replace("\t\t</Cube>", "\t\t\t" + bad + "\n\t\t</Cube>")).encode(), "USD", "corpus"))
        cases.append(("eu", (eu_good.split("\t\t</Cube>")[0] + "\t\t\t" + bad).encode(), "USD", "corpus"))
    t0 = time.time()
    workdir = os.path.join(core.WORK, "c20")
    shutil.rmtree(workdir, ignore_errors=True)
    os.makedirs(workdir)
    # 16 workers, each with its own directories (index modulo 64 => partition by worker to avoid clashes)
    def work(args):
        i, (src, contents, cur, tag) = args
        return run_fend(fend, os.path.join(workdir, f"t{i % 16}"), 0, src, contents, cur)
    chunks = [[] for _ in range(16)]
    for i, c in enumerate(cases):
        chunks[i % 16].append((i, c))
    results = [None] * len(cases)
    def run_chunk(ch):
        for a in ch:
            results[a[0]] = work(a)
    with ThreadPoolExecutor(16) as ex:
        list(ex.map(run_chunk, chunks))
    lines = [f"{src} {now} 259200 {cur.encode().hex()} {contents.hex()}" for (src, contents, cur, tag) in cases]
    model = ctx.run_lines(core.DRIVER, ["xrates"], lines, timeout=900)[1]
    dist = {}
    good_texts = {"eu": eu_file(now - 100), "un": un_file(now - 100)}
    for (src, contents, cur, tag), impl, m in zip(cases, results, model):
        cls = impl.split(" ")[0]
        key = f"{src}:{tag}:{cls}"
        dist[key] = dist.get(key, 0) + 1
        inp = f"{src} currency={cur} cache={contents.hex()}"
        if cls in ("panic", "timeout"):
            ctx.spec_failures.append({"stream": "cache-files", "input": inp[:3000], "impl": impl[:300], "model": m, "spec": "whatever the cache holds, the program never panics"})
            continue
        try:
            text = contents.decode("utf-8")
        except UnicodeDecodeError:
            text = None
        if cls == "ok":
            mt = re.search(r"(-?[0-9.]+(?:e-?[0-9]+)?) " + re.escape(cur), impl)
            val = float(mt.group(1)) if mt else None
            # specification: the rate used must be the number of some rate text that stands verbatim in the file as presented
            # (str::parse::<f64> also reads a sign and an exponent: a damaged file can hold `1.08e6` or `-61.03`)
            verb = [1.0]
            for x in re.findall(r"(?<![0-9.eE+-])([-+]?(?:[0-9]+(?:\.[0-9]*)?|\.[0-9]+)(?:[eE][-+]?[0-9]+)?)", text or ""):
                try:
                    verb.append(float(x))
                except ValueError:
                    pass
            if val is None or not any(close(val, v) for v in verb):
                ctx.spec_failures.append({"stream": "cache-files", "input": inp[:3000], "impl": impl[:200], "model": m,
                                          "spec": "a reported rate must be present verbatim in the cache file (here no number in the file equals it)"})
                continue
            # for prefixes of the good file: the rate must be one the intact file contains for that currency
            if tag == "prefix":
                want = dict(EU_RATES if src == "eu" else UN_RATES).get(cur)
                if want is not None and not close(val, float(want)):
                    ctx.spec_failures.append({"stream": "cache-files", "input": inp[:3000], "impl": impl[:200], "model": m,
                                              "spec": f"truncated file: the intact file's rate for {cur} is {want}"})
                    continue
        # model correspondence: class and, when ok, the number of the model's rate text
        if m.startswith("ok"):
            if cls != "ok":
                ctx.model_disagreements.append({"stream": "cache-files", "input": inp[:3000], "impl": impl[:160], "model": m})
            elif m != "ok base":
                try:
                    mv = float(bytes.fromhex(m[3:]).decode())
                except Exception:
                    mv = None
                if mv is None or val is None or not close(val, mv):
                    ctx.model_disagreements.append({"stream": "cache-files", "input": inp[:3000], "impl": impl[:160], "model": m})
        elif cls == "ok":
            ctx.model_disagreements.append({"stream": "cache-files", "input": inp[:3000], "impl": impl[:160], "model": m})
    ctx.record_stream("cache-files", "the built `fend` binary (FEND_CACHE_DIR / FEND_CONFIG_DIR private, source EU or UN, internet access enabled so a rejected cache falls "
                      "through to the network path, which fails offline) on: every prefix of representative EU and UN cache files (sampled in quick), single-character "
                      "substitutions incl. multi-byte characters, timestamp framing variants, non-UTF-8 tails, random byte edits; rate printed by `1 BASE to CUR` vs the "
                      "Lean model's rate text, and vs the numbers that stand verbatim in the file (spec)",
                      len(cases), len(set((a, b, c) for a, b, c, _ in cases)), dist, [f"{s} {c} {len(b)} bytes ({t})" for s, b, c, t in cases[:3]], time.time() - t0)
    return ctx.finish(rule="representative files are constructed from the formats the parsers accept (no network to fetch real ones); distinct = distinct (source, bytes, currency)",
                      extra={"exhaustive": (not quick)})

def replay(ctx, rep):
    fend = ctx.cli()
    f = rep["first"]
    src, cur, cache = f["input"].split(" ")
    contents = bytes.fromhex(cache.split("=")[1])
    print("cache (%d bytes): %r" % (len(contents), contents[-200:]))
    print("impl :", run_fend(fend, os.path.join(core.WORK, "c20", "replay"), 0, src, contents, cur.split("=")[1]))
    print("model:", f.get("model"))
    return 0
