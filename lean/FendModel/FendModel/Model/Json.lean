/-
Model of `core/src/json.rs::escape_string` and an independent RFC 8259 string decoder (spec).
Text is a list of code points (`Nat`); a code point is a Unicode scalar value when `isScalar`.
`List Char` is recovered through `Char.toNat` (every `Char` is a scalar value).
-/
namespace Fend.Json

def isScalar (n : Nat) : Prop := n < 0xD800 ∨ (0xE000 ≤ n ∧ n < 0x110000)

instance (n : Nat) : Decidable (isScalar n) := by unfold isScalar; infer_instance

/-- `char::from_digit(d, 16)`: lower-case hex digit as a code point -/
def hexDigit (d : Nat) : Nat := if d < 10 then 48 + d else 87 + d

/-- `\uXXXX` for one UTF-16 code unit, digits by the same divisions as the Rust -/
def u4 (cu : Nat) : List Nat :=
  [92, 117, hexDigit (cu / 0x1000), hexDigit (cu % 0x1000 / 0x100),
   hexDigit (cu % 0x100 / 0x10), hexDigit (cu % 0x10)]

/-- `char::encode_utf16` -/
def utf16 (c : Nat) : List Nat :=
  if c < 0x10000 then [c]
  else [0xD800 + (c - 0x10000) / 0x400, 0xDC00 + (c - 0x10000) % 0x400]

def escapeChar (c : Nat) : List Nat :=
  if c = 92 then [92, 92]            -- '\\'
  else if c = 34 then [92, 34]       -- '"'
  else if c = 10 then [92, 110]      -- '\n'
  else if c = 13 then [92, 114]      -- '\r'
  else if c = 9 then [92, 116]       -- '\t'
  else if 0x20 ≤ c ∧ c ≤ 0x7e then [c]
  else (utf16 c).flatMap u4

def escapeString (s : List Nat) : List Nat := s.flatMap escapeChar

/-! ### specification: RFC 8259 string decoding -/

def hexVal (c : Nat) : Option Nat :=
  if 48 ≤ c ∧ c ≤ 57 then some (c - 48)
  else if 97 ≤ c ∧ c ≤ 102 then some (c - 87)
  else if 65 ≤ c ∧ c ≤ 70 then some (c - 55)
  else none

def hex4 : List Nat → Option (Nat × List Nat)
  | a :: b :: c :: d :: rest =>
    match hexVal a, hexVal b, hexVal c, hexVal d with
    | some a, some b, some c, some d => some (a * 0x1000 + b * 0x100 + c * 0x10 + d, rest)
    | _, _, _, _ => none
  | _ => none

def simpleEscape (c : Nat) : Option Nat :=
  if c = 34 then some 34 else if c = 92 then some 92 else if c = 47 then some 47
  else if c = 98 then some 8 else if c = 102 then some 12 else if c = 110 then some 10
  else if c = 114 then some 13 else if c = 116 then some 9 else none

/-- decode the characters after the opening quote, up to and including the closing quote,
which must be the last character -/
def decodeAux : Nat → List Nat → Option (List Nat)
  | 0, _ => none
  | fuel + 1, cs =>
    match cs with
    | [] => none
    | c :: rest =>
      if c = 34 then (if rest = [] then some [] else none)
      else if c = 92 then
        match rest with
        | [] => none
        | e :: rest =>
          if e = 117 then
            match hex4 rest with
            | none => none
            | some (cu, rest') =>
              if 0xD800 ≤ cu ∧ cu < 0xDC00 then
                match rest' with
                | 92 :: 117 :: rest'' =>
                  match hex4 rest'' with
                  | none => none
                  | some (lo, rest''') =>
                    if 0xDC00 ≤ lo ∧ lo < 0xE000 then
                      (decodeAux fuel rest''').map
                        (fun t => (0x10000 + (cu - 0xD800) * 0x400 + (lo - 0xDC00)) :: t)
                    else none
                | _ => none
              else if 0xDC00 ≤ cu ∧ cu < 0xE000 then none
              else (decodeAux fuel rest').map (fun t => cu :: t)
          else
            match simpleEscape e with
            | none => none
            | some ch => (decodeAux fuel rest).map (fun t => ch :: t)
      else if c < 0x20 then none
      else (decodeAux fuel rest).map (fun t => c :: t)

/-- decode `"…"` -/
def jsonDecodeString : List Nat → Option (List Nat)
  | 34 :: rest => decodeAux (rest.length + 1) rest
  | _ => none

/-- executable entry points on strings, used by the driver -/
def escapeStr (s : String) : String :=
  String.ofList ((escapeString (s.toList.map Char.toNat)).map Char.ofNat)

end Fend.Json
