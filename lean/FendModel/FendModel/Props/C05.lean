/-
C05 — dimensional analysis is sound: incompatible quantities never combine.
-/
import FendModel.Model.Units
import Mathlib.Tactic.Ring

namespace Fend.C05
open Fend.Units

/-- converting (and adding / subtracting, which scale through the same check) between quantities
whose reduced dimensions differ in some base unit is always the incompatible-units error -/
theorem convert_incompatible (bases : List Nat) (x : Rat) (a b : UnitV) (u : Nat) (hu : u ∈ bases)
    (hd : expOf u (reduce a.dims).1 ≠ expOf u (reduce b.dims).1) : convert bases x a b = none := by
  unfold convert
  generalize reduce a.dims = ra at *
  generalize reduce b.dims = rb at *
  obtain ⟨da, adja, offa⟩ := ra
  obtain ⟨db, adjb, offb⟩ := rb
  simp only at hd ⊢
  have : sameDims bases da db = false := by
    unfold sameDims
    apply Bool.eq_false_iff.mpr
    intro hall
    have := List.all_eq_true.mp hall u hu
    simp at this
    exact hd this
  simp [this]

theorem add_incompatible (bases : List Nat) (x y : Rat) (a b : UnitV) (u : Nat) (hu : u ∈ bases)
    (hd : expOf u (reduce b.dims).1 ≠ expOf u (reduce a.dims).1) : addIn bases x a y b = none := by
  unfold addIn
  generalize reduce a.dims = ra at *
  generalize reduce b.dims = rb at *
  obtain ⟨da, adja, offa⟩ := ra
  obtain ⟨db, adjb, offb⟩ := rb
  simp only at hd ⊢
  have : sameDims bases db da = false := by
    unfold sameDims
    apply Bool.eq_false_iff.mpr
    intro hall
    have := List.all_eq_true.mp hall u hu
    simp at this
    exact hd this
  simp [this]

/-- multiplying adds dimension exponents -/
theorem mul_dims (b : Nat) (x y : Dims) : expOf b (mulDims x y) = expOf b x + expOf b y := by
  unfold mulDims
  induction x with
  | nil => simp [expOf]
  | cons p rest ih => obtain ⟨b', e⟩ := p; simp only [List.cons_append, expOf, ih]; ring

theorem expOf_neg (b : Nat) (y : Dims) : expOf b (y.map fun (x, e) => (x, -e)) = - expOf b y := by
  induction y with
  | nil => simp [expOf]
  | cons p rest ih =>
    obtain ⟨b', e⟩ := p
    simp only [List.map_cons, expOf, ih]
    split <;> ring

/-- dividing subtracts them -/
theorem div_dims (b : Nat) (x y : Dims) : expOf b (divDims x y) = expOf b x - expOf b y := by
  unfold divDims
  have := mul_dims b x (y.map fun (x, e) => (x, -e))
  unfold mulDims at this
  rw [this, expOf_neg]; ring

/-- raising to a rational power multiplies them -/
theorem pow_dims (b : Nat) (x : Dims) (q : Rat) : expOf b (powDims x q) = expOf b x * q := by
  unfold powDims
  induction x with
  | nil => simp [expOf]
  | cons p rest ih =>
    obtain ⟨b', e⟩ := p
    simp only [List.map_cons, expOf, ih]
    split <;> ring

/-! ### whole expression trees against the physical dimension calculus -/

/-- the physical dimension of a unit: one rational exponent per base quantity -/
def physLeaf (d : Dims) : Nat → Rat := fun b => expOf b (rename d)

/-- the dimension physics assigns to an expression, or `none` where physics forbids it: sums, differences and
conversions need equal dimensions (adding an exact zero is the one permitted no-op), exponents and the arguments
of pure-number functions must be dimensionless -/
def phys (bases : List Nat) : UExpr → Option (Nat → Rat)
  | .leaf d => some (physLeaf d)
  | .mul a b => match phys bases a, phys bases b with
    | some f, some g => some (fun x => f x + g x) | _, _ => none
  | .div a b => match phys bases a, phys bases b with
    | some f, some g => some (fun x => f x - g x) | _, _ => none
  | .pow a e q => match phys bases a, phys bases e with
    | some f, some g => if bases.all (fun x => g x == 0) then some (fun x => f x * q) else none
    | _, _ => none
  | .add z a b => match phys bases a, phys bases b with
    | some f, some g => if z then some f else if bases.all (fun x => g x == f x) then some f else none
    | _, _ => none
  | .conv a b => match phys bases a, phys bases b with
    | some f, some g => if bases.all (fun x => f x == g x) then some g else none
    | _, _ => none
  | .fn1 a => match phys bases a with
    | some f => if bases.all (fun x => f x == 0) then some (fun _ => 0) else none
    | none => none
  | .fn2 a b => match phys bases a, phys bases b with
    | some f, some g => if bases.all (fun x => f x == 0) && bases.all (fun x => g x == 0) then some (fun _ => 0) else none
    | _, _ => none

theorem rename_append (x y : Dims) : rename (x ++ y) = rename x ++ rename y := by simp [rename]

theorem expOf_append (b : Nat) (x y : Dims) : expOf b (x ++ y) = expOf b x + expOf b y := mul_dims b x y

/-- the celsius / fahrenheit special cases of `reduce_hashmap` change offsets and scales, never the dimension -/
theorem reduce_dims (d : Dims) : (reduce d).1 = rename d := by
  unfold reduce
  split
  · rename_i h
    unfold isExactly at h
    split at h
    · rename_i b e
      simp only [Bool.and_eq_true, beq_iff_eq] at h
      obtain ⟨h1, h2⟩ := h
      subst h1; subst h2
      simp [rename, celsius, fahrenheit, kelvin]
    · cases h
  · split
    · rename_i h
      unfold isExactly at h
      split at h
      · rename_i b e
        simp only [Bool.and_eq_true, beq_iff_eq] at h
        obtain ⟨h1, h2⟩ := h
        subst h1; subst h2
        simp [rename, celsius, fahrenheit, kelvin]
      · cases h
    · rfl

theorem physLeaf_mul (x y : Dims) : physLeaf (mulDims x y) = fun b => physLeaf x b + physLeaf y b := by
  funext b; simp [physLeaf, mulDims, rename_append, expOf_append]

theorem rename_neg (y : Dims) : rename (y.map fun (x, e) => (x, -e)) = (rename y).map fun (x, e) => (x, -e) := by
  simp [rename, List.map_map, Function.comp_def]

theorem physLeaf_div (x y : Dims) : physLeaf (divDims x y) = fun b => physLeaf x b - physLeaf y b := by
  funext b
  simp only [physLeaf, divDims, rename_append, expOf_append, rename_neg, expOf_neg]
  ring

theorem rename_pow (x : Dims) (q : Rat) : rename (powDims x q) = powDims (rename x) q := by
  simp [rename, powDims, List.map_map, Function.comp_def]

theorem physLeaf_pow (x : Dims) (q : Rat) : physLeaf (powDims x q) = fun b => physLeaf x b * q := by
  funext b; simp [physLeaf, rename_pow, pow_dims]

theorem physLeaf_nil : physLeaf [] = fun _ => 0 := by funext b; simp [physLeaf, rename, expOf]

theorem sameDims_phys (bases : List Nat) (x y : Dims) :
    sameDims bases (reduce x).1 (reduce y).1 = bases.all (fun u => physLeaf x u == physLeaf y u) := by
  simp [sameDims, reduce_dims, physLeaf]

theorem sameDims_unitless (bases : List Nat) (x : Dims) :
    sameDims bases (reduce x).1 (reduce []).1 = bases.all (fun u => physLeaf x u == 0) := by
  rw [sameDims_phys, physLeaf_nil]

/-- **the dimension of any result is the one physics assigns, and the evaluator reports an incompatibility
exactly where physics forbids the expression** — for every expression tree -/
theorem tree_dims (bases : List Nat) (t : UExpr) : (dimsOf bases t).map physLeaf = phys bases t := by
  induction t with
  | leaf d => simp [dimsOf, phys]
  | mul a b iha ihb =>
    simp only [dimsOf, phys, ← iha, ← ihb]
    cases dimsOf bases a <;> cases dimsOf bases b <;> simp [physLeaf_mul]
  | div a b iha ihb =>
    simp only [dimsOf, phys, ← iha, ← ihb]
    cases dimsOf bases a <;> cases dimsOf bases b <;> simp [physLeaf_div]
  | pow a e q iha ihe =>
    simp only [dimsOf, phys, ← iha, ← ihe]
    cases dimsOf bases a <;> cases dimsOf bases e <;> simp [sameDims_unitless]
    split <;> simp [physLeaf_pow]
  | add z a b iha ihb =>
    simp only [dimsOf, phys, ← iha, ← ihb]
    cases dimsOf bases a <;> cases dimsOf bases b <;> simp [sameDims_phys]
    cases z <;> simp
  | conv a b iha ihb =>
    simp only [dimsOf, phys, ← iha, ← ihb]
    cases dimsOf bases a <;> cases dimsOf bases b <;> simp [sameDims_phys]
  | fn1 a iha =>
    simp only [dimsOf, phys, ← iha]
    cases dimsOf bases a <;> simp [sameDims_unitless]
    split <;> simp [physLeaf_nil]
  | fn2 a b iha ihb =>
    simp only [dimsOf, phys, ← iha, ← ihb]
    cases dimsOf bases a <;> cases dimsOf bases b <;> simp [sameDims_unitless]
    split <;> simp [physLeaf_nil]

/-- in particular a sum of quantities whose physical dimensions differ (right operand not an exact zero) is
never a number, wherever it occurs inside a larger expression it makes the whole evaluation fail -/
theorem sum_of_different_dimensions_fails (bases : List Nat) (a b : UExpr) (f g : Nat → Rat)
    (ha : phys bases a = some f) (hb : phys bases b = some g) (u : Nat) (hu : u ∈ bases) (hne : g u ≠ f u) :
    dimsOf bases (.add false a b) = none := by
  have h := tree_dims bases (.add false a b)
  have : phys bases (.add false a b) = none := by
    simp only [phys, ha, hb]
    have : (bases.all fun x => g x == f x) = false := by
      apply Bool.eq_false_iff.mpr
      intro hall
      have := List.all_eq_true.mp hall u hu
      simp at this
      exact hne this
    simp [this]
  rw [this] at h
  cases hd : dimsOf bases (.add false a b) with
  | none => rfl
  | some d => rw [hd] at h; cases h

-- non-vacuity: `(m * s) + m` fails, `(m / s) ^ 2 to (m^2 s^-2)` has dimension m^2 s^-2, `ln(m / m)` is allowed
example : dimsOf [3, 4] (.add false (.mul (.leaf [(4, 1)]) (.leaf [(3, 1)])) (.leaf [(4, 1)])) = none := by decide +kernel
example : (dimsOf [3, 4] (.conv (.pow (.div (.leaf [(4, 1)]) (.leaf [(3, 1)])) (.leaf []) 2) (.leaf [(4, 2), (3, -2)]))).isSome = true := by
  decide +kernel
example : (dimsOf [3, 4] (.fn1 (.div (.leaf [(4, 1)]) (.leaf [(4, 1)])))).isSome = true := by decide +kernel

-- non-vacuity: metre vs second are incompatible in the `second` base unit
example : expOf 3 (reduce [(4, (1 : Rat))]).1 ≠ expOf 3 (reduce [(3, (1 : Rat))]).1 := by decide +kernel

end Fend.C05
