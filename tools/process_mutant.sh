#!/bin/sh
# usage: MUT_BASE=/tmp/mut3 tools/process_mutant.sh <ID> <round-suffix>: confirm, save as seeded/<ID>-m<suffix>, run the check on it, drop the worktree
ID=$1; S=$2; B=${MUT_BASE:-/tmp/mut}
sh /verif/tools/confirm_mutant.sh $ID 1 2>&1 | tee $B/confirm_$ID.log
grep -q "suite=pass demo_on_mutant=fail demo_on_clean=pass" $B/confirm_$ID.log || { echo "NOT CONFIRMED $ID"; exit 1; }
sh /verif/tools/save_mutant.sh $ID 1 $S
[ -d $B/$ID-out/mutant1/demo ] && cp -r $B/$ID-out/mutant1/demo /verif/seeded/$ID-m$S/
python3 - <<PY
import json
p='/verif/seeded/$ID-m$S/meta.json'
m=json.load(open(p)); m['origin']="independent sub-agent (round 3, after the check existed) given only the property text and a scratch worktree"; json.dump(m,open(p,'w'),indent=1)
PY
cd /verif && python3 tools/mutant_matrix.py $ID-m$S 2>&1 | cut -c1-320
git -C /repo status --short
git -C /repo worktree remove --force $B/$ID; rm -rf $B/$ID
