//! Stream `crash` (C06): `<flags> <entry> <hex utf-8 text>`; flags as in `preview` (`comma=1,cf=1,rng=1,xr=0|1|2,custom=1`),
//! entry = eval | preview | prefixes | complete | inline.  The evaluation runs under a deadline interrupt
//! (`CRASH_DEADLINE_MS`, default 300) so that merely slow inputs end with `interrupted`; what is reported is
//! `ok` / `err` / `panic <payload>` (a caught unwind).  Aborts (stack overflow, allocation failure) kill the
//! process and are detected by the runner.
use crate::common::*;
use fend_core::{Context, CustomUnitAttribute, DecimalSeparatorStyle};

fn rng() -> u32 {
    4
}

struct Xr(bool);
impl fend_core::ExchangeRateFn for Xr {
    fn relative_to_base_currency(&self, currency: &str) -> Result<f64, Box<dyn std::error::Error + Send + Sync + 'static>> {
        if self.0 {
            return Err("no rates today".into());
        }
        Ok(match currency {
            "EUR" => 1.0,
            "USD" => 1.25,
            _ => 2.0,
        })
    }
}

fn build(flags: &str) -> Context {
    let mut c = Context::new();
    for kv in flags.split(',') {
        match kv {
            "comma=1" => c.set_decimal_separator_style(DecimalSeparatorStyle::Comma),
            "cf=1" => c.use_coulomb_and_farad(),
            "rng=1" => c.set_random_u32_fn(rng),
            "xr=1" => c.set_exchange_rate_handler_v1(Xr(false)),
            "xr=2" => c.set_exchange_rate_handler_v1(Xr(true)),
            "custom=1" => {
                c.define_custom_unit_v1("florp", "florps", "3 kg", &CustomUnitAttribute::None);
                c.define_custom_unit_v1("zib", "zibs", "!", &CustomUnitAttribute::AllowLongPrefix);
            }
            _ => {}
        }
    }
    c
}

fn unhex(h: &str) -> Option<String> {
    if h == "-" {
        return Some(String::new());
    }
    let b: Option<Vec<u8>> = (0..h.len()).step_by(2).map(|i| h.get(i..i + 2).and_then(|x| u8::from_str_radix(x, 16).ok())).collect();
    String::from_utf8(b?).ok()
}

pub fn line(l: &str) -> String {
    let ws: Vec<&str> = l.trim().split(' ').collect();
    let [flags, entry, hex] = ws.as_slice() else { return "bad-op".into() };
    let Some(text) = unhex(hex) else { return "bad-op".into() };
    let ms: u64 = std::env::var("CRASH_DEADLINE_MS").ok().and_then(|v| v.parse().ok()).unwrap_or(300);
    let mut c = build(flags);
    let mut verdict = |r: Result<Result<(), String>, String>| match r {
        Ok(Ok(())) => "ok".to_string(),
        Ok(Err(_)) => "err".to_string(),
        Err(p) => format!("panic {}", p.replace('\n', " ")),
    };
    match *entry {
        "eval" => {
            let int = Deadline::ms(ms);
            verdict(guarded(|| fend_core::evaluate_with_interrupt(&text, &mut c, &int).map(|_| ())))
        }
        "preview" => {
            let int = Deadline::ms(ms);
            verdict(guarded(|| {
                let _ = fend_core::evaluate_preview_with_interrupt(&text, &mut c, &int);
                Ok(())
            }))
        }
        "prefixes" => {
            // every prefix typed on the way to the input, previewed in the SAME context
            let mut cuts: Vec<usize> = text.char_indices().map(|(i, _)| i).collect();
            cuts.push(text.len());
            for i in cuts {
                let int = Deadline::ms(ms.min(50));
                let pre = &text[..i];
                if let Err(p) = guarded(|| {
                    let _ = fend_core::evaluate_preview_with_interrupt(pre, &mut c, &int);
                }) {
                    return format!("panic prefix-len={} {}", i, p.replace('\n', " "));
                }
            }
            "ok".to_string()
        }
        "complete" => verdict(guarded(|| {
            let _ = fend_core::get_completions_for_prefix(&text);
            Ok(())
        })),
        "inline" => {
            let int = Deadline::ms(ms);
            verdict(guarded(|| {
                let _ = fend_core::substitute_inline_fend_expressions(&text, &mut c, &int);
                Ok(())
            }))
        }
        _ => "bad-op".to_string(),
    }
}
