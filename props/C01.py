"""C01 — exact arithmetic on rationals and complex rationals."""
from vlib import core, nat_oracle, biguint_cases

MODULE = "FendModel.Props.C01"
REL = "FendModel/Props/C01.lean"

def run(ctx):
    quick = ctx.tier == "quick"
    ctx.lean_build([MODULE])
    ctx.audit(MODULE, REL)
    if not quick:
        ctx.leanchecker(MODULE)
    h = ctx.harness()
    if h is None:
        ctx.proof_failures.append({"file": "harness", "decl": "harness build (verif-hooks)", "line": 0,
                                   "msg": getattr(ctx, "harness_error", "")})
        return ctx.finish()
    n = 4000 if quick else 200000
    lines = biguint_cases.cases(ctx.rng, n, nat_oracle.C01_OPS, maxlimbs=6 if quick else 64)
    ctx.diff_stream("biguint-ops", lines, h, "biguint", canon=nat_oracle.canon, oracle=nat_oracle.oracle,
                    nontrivial=lambda c, a: "L" in c,
                    what="BigUint add/sub/mul/divmod/cmp/gcd/pow on raw limb vectors through the hooks; "
                         "implementation vs Lean model (value + error class) and vs Python int arithmetic (spec)")
    return ctx.finish(rule="operand generator of DESIGN.md section 7 (limbs from {0,1,2^63,2^64-1,random}, leading zero limbs, "
                           "Small/Large forms, 2^(64k)+-1, cancelling histories); a case is non-trivial when an operand is a "
                           "multi-limb (Large) vector; distinct = distinct case lines")

def replay(ctx, rep):
    h = ctx.harness()
    f = rep["first"]
    case = f["input"]
    impl = ctx.run_lines(h, ["biguint"], [case])[1]
    model = ctx.run_lines(core.DRIVER, ["biguint"], [case])[1]
    print("case :", case); print("impl :", impl); print("model:", model)
    print("spec :", nat_oracle.expected(case))
    return 0
