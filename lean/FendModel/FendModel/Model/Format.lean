/-
Model of number rendering: `impl Format for BigUint` (digits, `sf_limit`), `BigRat::format`
(`format_as_integer`, `format_as_fraction`, `format_as_decimal`, `format_trailing_digits`,
`format_nonrecurring`, cycle detection, `terminates_in_base`) — on a simplified non-negative
fraction `num/den` with a sign.  The u128 digit grouping of the Rust is abstracted to plain repeated
division (same digits); Brent's algorithm is abstracted to "first repeated remainder" (same `mu`, `lam`).
-/
namespace Fend.Fmt

def digitChar (d : Nat) : Char := if d < 10 then Char.ofNat (48 + d) else Char.ofNat (87 + d)

/-- most significant digit first; `acc` collects the lower digits -/
def digitsAux (b : Nat) : Nat → Nat → List Nat → List Nat
  | 0, _, acc => acc
  | fuel + 1, n, acc => if n < b then n :: acc else digitsAux b fuel (n / b) (n % b :: acc)

def natDigits (b n : Nat) : List Nat := digitsAux b (n + 1) n []

/-- what the lexer computes from a digit string: `res = res * base + digit` -/
def valDigits (b : Nat) (ds : List Nat) : Nat := ds.foldl (fun a d => a * b + d) 0

inductive Pfx where
  | plain     -- `to base n`: no prefix
  | custom    -- `n#`
  | zero      -- `0b`, `0o`, `0x`
deriving DecidableEq, Repr

def prefixChars (p : Pfx) (b : Nat) : List Char :=
  match p with
  | .plain => []
  | .custom => (toString b).toList ++ ['#']
  | .zero => if b = 2 then ['0', 'b'] else if b = 8 then ['0', 'o'] else ['0', 'x']

def countLowZeros : List Nat → Nat          -- given least significant first
  | 0 :: t => countLowZeros t + 1
  | _ => 0

/-- `BigUint::format` + `Display`: (prefix ++ digits, exact, number of digits) -/
def fmtNat (p : Pfx) (b n : Nat) (sf : Option Nat) : List Char × Bool × Nat :=
  if n = 0 then (prefixChars p b ++ ['0'], true, 1) else
  let ds := natDigits b n
  match sf with
  | none => (prefixChars p b ++ ds.map digitChar, true, ds.length)
  | some k =>
    let shown := (List.range ds.length).zipWith (fun i d => if k ≤ i then 0 else d) ds
    (prefixChars p b ++ shown.map digitChar, decide (ds.length - countLowZeros ds.reverse ≤ k), ds.length)

inductive Style where
  | improper | mixed | exactFloat | exact | auto
  | dp (n : Nat) | sf (n : Nat)
deriving DecidableEq, Repr

inductive MaxDigits where
  | all | dp (n : Nat) | ign (n : Nat)
deriving DecidableEq, Repr

/-- `terminates_in_base`: strip from the denominator everything it shares with the base -/
def termLoop (b : Nat) : Nat → Nat → Bool
  | 0, den => den == 1
  | fuel + 1, den =>
    let d' := den / Nat.gcd b den
    if d' = den then den == 1 else termLoop b fuel d'

def terminates (b den : Nat) : Bool := termLoop b (den + 1) den

/-- `format_nonrecurring`: digits of `cur/den` after the point until the value is exhausted or the limit is
reached; `intTxt` is the already formatted integer part, `neg`/`intZero` decide the sign.  Loop state: the current
numerator, the digit index `i`, the number of pending zeros, whether anything has been written, the text so far (reversed).
Returns (sign is negative, text, exact). -/
def nonrecLoop (b den : Nat) (md : MaxDigits) (sep : Char) (intTxt : List Char) (neg intZero : Bool) :
    Nat → Nat → Nat → Nat → Bool → List Char → Bool × List Char × Bool
  | 0, cur, _, _, _, out => (neg, out.reverse, cur == 0)
  | fuel + 1, cur, i, zeros, started, out =>
    let stop := cur == 0 || md == .dp i || md == .ign i
    if stop then
      if started then (neg, out.reverse, cur == 0)
      else (neg && !intZero, (intTxt.reverse ++ out).reverse, cur == 0)
    else
      let digit := cur * b / den
      let next := cur * b - digit * den
      if digit = 0 then
        nonrecLoop b den md sep intTxt neg intZero fuel next
          (if i == 0 && (match md with | .ign _ => true | _ => false) then i else i + 1) (zeros + 1) started out
      else
        let out0 := if started then out else sep :: (intTxt.reverse ++ out)
        let out1 := List.replicate zeros '0' ++ out0
        nonrecLoop b den md sep intTxt neg intZero fuel next (i + 1) 0 true (digitChar digit :: out1)

/-- remainder after `k` long-division steps starting from `r` -/
def remAt (b den r : Nat) : Nat → Nat
  | 0 => r
  | k + 1 => (remAt b den r k * b) % den

/-- the first `k` digits after the point of `r/den` -/
def digitsFrom (b den r : Nat) : Nat → List Nat
  | 0 => []
  | k + 1 => digitsFrom b den r k ++ [remAt b den r k * b / den]

def remsList (b den : Nat) : Nat → Nat → List Nat
  | _, 0 => []
  | r, k + 1 => r :: remsList b den ((r * b) % den) k

/-- first repeated remainder: (`mu` = digits before the cycle, `lam` = cycle length) -/
def findCycle (b den r : Nat) : Option (Nat × Nat) :=
  let rs := (remsList b den r (den + 2)).toArray
  (List.range (den + 2)).findSome? fun i =>
    ((List.range i).find? fun j => rs[j]? == rs[i]?).map fun j => (j, i - j)

structure Opts where
  base : Nat
  pfx : Pfx
  style : Style
  sep : Char      -- '.' or ','
deriving Repr

def signed (neg : Bool) (t : List Char) : List Char := if neg then '-' :: t else t

/-- `BigRat::format` on the simplified value `(-1)^neg * num/den` (with `term = ""`): text and `exact` -/
def fmtRat (o : Opts) (neg : Bool) (num den : Nat) : List Char × Bool :=
  let b := o.base
  let neg := neg && num != 0
  if den = 1 then
    let (t, ex, _) := fmtNat o.pfx b num (match o.style with | .sf k => some k | _ => none)
    (signed neg t, ex)
  else
  let term := terminates b den
  let fraction := o.style == .improper || o.style == .mixed || (o.style == .exact && !term)
  if fraction then
    let mixed := o.style == .mixed || o.style == .exact
    let (dt, _, _) := fmtNat o.pfx b den none
    let ip := num / den
    if mixed && ip != 0 then
      let (pt, _, _) := fmtNat o.pfx b ip none
      let (nt, _, _) := fmtNat o.pfx b (num % den) none
      (signed neg (pt ++ [' '] ++ nt ++ ['/'] ++ dt), true)
    else
      let (nt, _, _) := fmtNat o.pfx b num none
      (signed neg (nt ++ ['/'] ++ dt), true)
  else
  let ip := num / den
  let (it, iex, ind) := fmtNat o.pfx b ip (match o.style with | .sf k => some k | _ => none)
  let md : MaxDigits :=
    if o.style == .exactFloat || (o.style == .auto && term) || o.style == .exact then .all
    else match o.style with
      | .dp n => .dp n
      | .sf k => if ip = 0 then .ign (k - ind + 1) else .dp (k - ind)
      | _ => .dp 10
  let r := num % den
  if md != .all || term then
    let lim := match md with | .all => 0 | .dp n => n | .ign n => n
    let (sg, t, ex) := nonrecLoop b den md o.sep it neg (ip == 0) (den + lim + 2) r 0 0 false []
    (signed sg t, iex && ex)
  else
    match findCycle b den r with
    | none => ([], false)      -- unreachable (pigeonhole); kept visible
    | some (mu, lam) =>
      let a := digitsFrom b den r mu
      let c := digitsFrom b den (remAt b den r mu) lam
      (signed neg (it ++ [o.sep] ++ a.map digitChar ++ ['('] ++ c.map digitChar ++ [')']), true)

end Fend.Fmt
