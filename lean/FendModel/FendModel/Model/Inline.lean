/-
Model of `core/src/inline_substitutions.rs::substitute_inline_fend_expressions`.
The scanner is a fold over the characters; the evaluator is a parameter
`eval : σ → List Char → σ × Res` (σ = the fend context threaded through the parts).
Accumulators are kept reversed (most recent character first), so that
`current_component.ends_with("[[")` is a pattern match.
-/
namespace Fend.Inline

inductive Res where
  | output (s : List Char)
  | error (s : List Char)
deriving DecidableEq, Repr

inductive Part where
  | unprocessed (s : List Char)
  /-- an evaluated `[[src]]`, remembering its source text -/
  | evaluated (src : List Char) (r : Res)
deriving DecidableEq, Repr

structure St (σ : Type) where
  cur : List Char        -- reversed
  inExpr : Bool
  inTicks : Bool
  parts : List Part      -- reversed
  ctx : σ

def step {σ} (eval : σ → List Char → σ × Res) (st : St σ) (ch : Char) : St σ :=
  let cur := ch :: st.cur
  let inTicks := if ch = '`' then !st.inTicks else st.inTicks
  match cur with
  | '[' :: '[' :: rest =>
    if !st.inExpr && !inTicks then
      { cur := [], inExpr := true, inTicks, parts := .unprocessed rest.reverse :: st.parts, ctx := st.ctx }
    else { st with cur, inTicks }
  | ']' :: ']' :: rest =>
    if st.inExpr && !inTicks then
      let (ctx', r) := eval st.ctx rest.reverse
      { cur := [], inExpr := false, inTicks, parts := .evaluated rest.reverse r :: st.parts, ctx := ctx' }
    else { st with cur, inTicks }
  | _ => { st with cur, inTicks }

def init {σ} (ctx : σ) : St σ := { cur := [], inExpr := false, inTicks := false, parts := [], ctx }

def finish {σ} (st : St σ) : List Part :=
  (.unprocessed ((if st.inExpr then ['[', '['] else []) ++ st.cur.reverse) :: st.parts).reverse

def inlineSubst {σ} (eval : σ → List Char → σ × Res) (ctx : σ) (input : List Char) : List Part :=
  finish (input.foldl (step eval) (init ctx))

/-- spec: put `[[src]]` back around every evaluated part -/
def reassemble : List Part → List Char
  | [] => []
  | .unprocessed s :: ps => s ++ reassemble ps
  | .evaluated src _ :: ps => ['[', '['] ++ src ++ [']', ']'] ++ reassemble ps

def contents : Part → List Char
  | .unprocessed s => s
  | .evaluated _ (.output s) => s
  | .evaluated _ (.error s) => s

end Fend.Inline
