/-
Model of the decision logic around the elementary functions: the exact trigonometric points of `Real::sin` /
`Real::cos` (`num/real.rs`), and the `f64 -> BigRat` bridge `BigRat::from_f64` (`num/bigrat.rs`).  The values
libm returns are runtime truth and are not modelled; only what fend does with them is.
-/
namespace Fend.Elem

/-- `Real::sin` on `n·π` with `6n = m` a natural number: the exact values it knows, `none` = falls through to
the floating-point approximation -/
def sinTable (m : Nat) : Option Rat :=
  if m % 6 = 0 then some 0
  else if m % 12 = 3 then some 1
  else if m % 12 = 9 then some (-1)
  else if m % 12 = 1 ∨ m % 12 = 5 then some (1 / 2)
  else if m % 12 = 7 ∨ m % 12 = 11 then some (-1 / 2)
  else none

/-- `sin(-x) = -sin(x)`: `m` may be negative -/
def sinPi (m : Int) : Option Rat :=
  if m < 0 then (sinTable (-m).toNat).map (fun q => -q) else sinTable m.toNat

/-- `cos x = sin (x + π/2)` -/
def cosPi (m : Int) : Option Rat := sinPi (m + 3)

/-- the fixed-point branch of `from_f64` for a float `f = mant / 2^k < 2^64`:
`i = ⌊f·2^64⌋`, value `(i mod 2^64 + (i / 2^64)·(2^64 − 1)) / (2^64 − 1)` -/
def fixedOf (mant k : Nat) : Rat :=
  let i : Nat := mant * 18446744073709551616 / 2 ^ k
  ((i % 18446744073709551616 : Nat) + (i / 18446744073709551616 : Nat) * (18446744073709551615 : Rat)) / 18446744073709551615

/-- a finite, non-negative double given by its bits, as `mant · 2^up / 2^down` -/
def decodeParts (bits : Nat) : Option (Nat × Nat × Nat) :=
  let e := (bits / 4503599627370496) % 2048
  let frac := bits % 4503599627370496
  if e = 2047 then none                         -- infinity / NaN
  else if e = 0 then some (frac, 0, 1074)
  else if e ≥ 1075 then some (frac + 4503599627370496, e - 1075, 0)
  else some (frac + 4503599627370496, 0, 1075 - e)

def decode (bits : Nat) : Option Rat :=
  (decodeParts bits).map fun (m, up, down) => (m : Rat) * 2 ^ up / 2 ^ down

inductive FErr where
  | valueTooLarge
deriving DecidableEq, Repr

/-- `BigRat::from_f64` on the magnitude (the sign is copied) -/
def fromF64 (bits : Nat) : Except FErr Rat :=
  match decodeParts bits with
  | none => .error .valueTooLarge
  | some (m, up, down) =>
    if m * 2 ^ up ≥ 18446744073709551616 * 2 ^ down then .ok ((m : Rat) * 2 ^ up / 2 ^ down)
    else .ok (fixedOf (m * 2 ^ up) down)

end Fend.Elem
