/-
C01 — exact arithmetic on rationals and complex rationals is exact.
Property theorems only; helper lemmas live in FendModel/Proofs/.
`val : BigUint → Nat` is the abstraction map: every theorem holds for EVERY limb vector
(canonical or not, `small` or `large`, any number of leading zero limbs).
-/
import FendModel.Proofs.BigUintSub
import FendModel.Proofs.BigUintPow
import FendModel.Proofs.BigRatMulDiv
import FendModel.Proofs.BigRatField
import FendModel.Proofs.BigRatPow
import FendModel.Proofs.BigRatCmp
import FendModel.Proofs.Complex
import FendModel.Proofs.ComplexTree
import FendModel.Model.Pinned

namespace Fend.C01
open Fend Fend.BigUint

/-- `BigUint::add` is addition on values (no well-formedness hypothesis needed). -/
theorem add_exact (a b : BigUint) : val (a.add b) = val a + val b := add_val a b

/-- `add_assign_internal`, the multiply-accumulate at the heart of `add` and `mul`. -/
theorem mulAcc_exact (s o : BigUint) (d shift : Nat) :
    val (addAssignInternal s o d shift) = val s + val o * d * B ^ shift :=
  addAssignInternal_val s o d shift

/-- `BigUint::mul` is multiplication on values. -/
theorem mul_exact (a b : BigUint) : val (a.mul b) = val a * val b := mul_val a b

/-- `Ord for BigUint` is the order on values. -/
theorem cmp_exact (a b : BigUint) (ha : a.WF) (hb : b.WF) :
    a.cmp b = compare (val a) (val b) := cmp_val a b ha hb

/-- `BigUint::sub` never reaches its `unreachable!`/`assert_eq!`/overflow when `b ≤ a`,
and is subtraction on values. -/
theorem sub_exact (a b : BigUint) (ha : a.WF) (hb : b.WF) (h : val b ≤ val a) :
    ∃ r, a.sub b = .ok r ∧ val r = val a - val b ∧ r.WF := sub_val a b ha hb h

/-- `BigUint::pow` (square and multiply over `mul`): whenever it returns a value it is the power, for every base and
exponent, in any limb representation -/
theorem pow_exact (a b r : BigUint) (h : a.pow b = .ok r) : val r = val a ^ val b := pow_ok a b r h

/-- it refuses exactly `0^0` and non-zero exponents whose value does not fit in 64 bits (D1 was this clause being false:
the limb COUNT was tested instead of the value) -/
theorem pow_errors (a b : BigUint) :
    (a.pow b = .error .zeroPowZero ↔ val a = 0 ∧ val b = 0) ∧
    (a.pow b = .error .exponentTooLarge ↔ val b ≠ 0 ∧ b.fitsU64 = false) :=
  ⟨pow_zero_zero a b, pow_too_large a b⟩

/-- rational layer: `BigRat::mul` is multiplication of the denoted rationals, for every representation (unreduced, any limbs) -/
theorem rat_mul_exact (a b : BigRat) : BigRat.valQ (BigRat.mul a b) = BigRat.valQ a * BigRat.valQ b := BigRat.mul_valQ a b

/-- `BigRat::div` refuses exactly a zero divisor and is otherwise division of the denoted rationals -/
theorem rat_div_exact (a b : BigRat) (hw : b.num.WF) :
    (BigRat.numIsZero b = true → BigRat.div a b = .error .divideByZero) ∧
    (BigRat.numIsZero b = false → ∃ r, BigRat.div a b = .ok r ∧ (val b.den ≠ 0 → BigRat.valQ r = BigRat.valQ a / BigRat.valQ b)) :=
  BigRat.div_valQ a b hw

/-- negation negates -/
theorem rat_neg_exact (a : BigRat) : BigRat.valQ (BigRat.negate a) = - BigRat.valQ a := BigRat.negate_valQ a

/-- binary long division: Euclidean quotient and remainder for every dividend and every non-zero divisor, never a panic -/
theorem divmod_exact (a b : BigUint) (ha : a.WF) (hb : b.WF) (hb0 : val b ≠ 0) :
    ∃ q r, divmod a b = .ok (q, r) ∧ val q = val a / val b ∧ val r = val a % val b ∧ q.WF ∧ r.WF :=
  divmod_val a b ha hb hb0

theorem divmod_by_zero (a b : BigUint) (hb : b.WF) (hb0 : val b = 0) : divmod a b = .error .divideByZero :=
  divmod_zero a b hb hb0

/-- the Euclidean loop computes the greatest common divisor (its fuel always suffices) -/
theorem gcd_exact (a b : BigUint) (ha : a.WF) (hb : b.WF) :
    ∃ g, gcd a b = .ok g ∧ val g = Nat.gcd (val a) (val b) ∧ g.WF := gcd_val a b ha hb

/-- limbs stay below 2^64 through `add` and `mul` (so results can be fed to `sub`, `cmp`, `divmod`, `gcd`) -/
theorem add_mul_wf (a b : BigUint) (ha : a.WF) (hb : b.WF) : (a.add b).WF ∧ (a.mul b).WF :=
  ⟨add_WF a b ha hb, mul_WF a b ha hb⟩

/-- `BigRat::add` (equal and different denominators, every sign combination, unreduced operands) is addition -/
theorem rat_add_exact (a b : BigRat) (wa : BigRat.WFQ a) (wb : BigRat.WFQ b) (da : val a.den ≠ 0) (db : val b.den ≠ 0) :
    ∃ r, BigRat.add a b = .ok r ∧ BigRat.valQ r = BigRat.valQ a + BigRat.valQ b ∧ BigRat.WFQ r ∧ val r.den ≠ 0 :=
  BigRat.add_valQ a b wa wb da db

theorem rat_sub_exact (a b : BigRat) (wa : BigRat.WFQ a) (wb : BigRat.WFQ b) (da : val a.den ≠ 0) (db : val b.den ≠ 0) :
    ∃ r, BigRat.sub a b = .ok r ∧ BigRat.valQ r = BigRat.valQ a - BigRat.valQ b ∧ BigRat.WFQ r ∧ val r.den ≠ 0 :=
  BigRat.sub_valQ a b wa wb da db

/-- THE rational-field statement of C01: for every expression tree over +, -, *, /, unary minus whose literals are
well-formed fractions, evaluation with the modelled operations yields a value denoting the tree's true rational
value (whatever unreduced or oddly represented intermediate values arise), and the only error is `divideByZero`,
raised exactly when some divisor's value is zero -/
theorem field_tree_exact (e : BigRat.QExpr) (hl : BigRat.LeavesOK e) :
    (∀ q, BigRat.denote e = some q → ∃ r, BigRat.evalQ e = .ok r ∧ BigRat.valQ r = q ∧ BigRat.WFQ r ∧ val r.den ≠ 0) ∧
    (BigRat.denote e = none → BigRat.evalQ e = .error .divideByZero) :=
  BigRat.evalQ_spec e hl

/-- `simplify` (division by the gcd) keeps value, sign and well-formedness -/
theorem rat_simplify_exact (x : BigRat) (wx : BigRat.WFQ x) (dx : val x.den ≠ 0) :
    ∃ r, BigRat.simplify x = .ok r ∧ BigRat.valQ r = BigRat.valQ x ∧ BigRat.WFQ r ∧ val r.den ≠ 0 ∧ r.neg = x.neg ∧
      val r.num = val x.num / Nat.gcd (val x.num) (val x.den) ∧ val r.den = val x.den / Nat.gcd (val x.num) (val x.den) :=
  BigRat.simplify_spec x wx dx

/-- integer powers of rationals, exponent `+n` written as ANY fraction denoting `n` (`6/3`, `n/1`, ...): the exact power,
flagged exact; errors exactly 0^0 and an exponent beyond the machine word -/
theorem rat_pow_nonneg_int (fuel : Nat) (x e : BigRat) (wx : BigRat.WFQ x) (dx : val x.den ≠ 0) (we : BigRat.WFQ e)
    (he : BigRat.IntExp e) (hneg : e.neg = false) :
    (val x.num = 0 ∧ BigRat.expN e = 0 → BigRat.pow (fuel + 1) x e = .error .zeroPowZero) ∧
    (¬ (val x.num = 0 ∧ BigRat.expN e = 0) → B ≤ BigRat.expN e → BigRat.pow (fuel + 1) x e = .error .exponentTooLarge) ∧
    (¬ (val x.num = 0 ∧ BigRat.expN e = 0) → BigRat.expN e < B →
      ∃ r, BigRat.pow (fuel + 1) x e = .ok (r, true) ∧ BigRat.valQ r = BigRat.valQ x ^ BigRat.expN e ∧ BigRat.WFQ r ∧
        val r.den ≠ 0 ∧ (val r.num = 0 ↔ val x.num = 0)) :=
  BigRat.pow_nonneg_int fuel x e wx dx we he hneg

/-- negative integer exponents: the reciprocal of the power; 0^(-n) is division by zero -/
theorem rat_pow_neg_int (fuel : Nat) (x e : BigRat) (wx : BigRat.WFQ x) (dx : val x.den ≠ 0) (we : BigRat.WFQ e)
    (he : BigRat.IntExp e) (hneg : e.neg = true) :
    (val x.num = 0 ∧ BigRat.expN e = 0 → BigRat.pow (fuel + 2) x e = .error .zeroPowZero) ∧
    (¬ (val x.num = 0 ∧ BigRat.expN e = 0) → B ≤ BigRat.expN e → BigRat.pow (fuel + 2) x e = .error .exponentTooLarge) ∧
    (val x.num = 0 → BigRat.expN e ≠ 0 → BigRat.expN e < B → BigRat.pow (fuel + 2) x e = .error .divideByZero) ∧
    (val x.num ≠ 0 → BigRat.expN e < B →
      ∃ r, BigRat.pow (fuel + 2) x e = .ok (r, true) ∧ BigRat.valQ r = (BigRat.valQ x ^ BigRat.expN e)⁻¹) :=
  BigRat.pow_neg_int fuel x e wx dx we he hneg

-- non-vacuity: (-2/3)^(6/3) meets the hypotheses (unreduced integer exponent, negative base); `powTop` uses fuel 4 = 2 + 2
example : BigRat.WFQ ⟨true, .small 2, .small 3⟩ ∧ BigRat.WFQ ⟨false, .small 6, .small 3⟩ ∧ BigRat.IntExp ⟨false, .small 6, .small 3⟩ := by
  refine ⟨⟨?_, ?_⟩, ⟨?_, ?_⟩, ⟨?_, ?_⟩⟩ <;> simp [WF, val, B]

/-- comparison of rationals (`Ord for BigRat`, the sign of the difference) is the order of the denoted values -/
theorem rat_cmp_exact (a b : BigRat) (wa : BigRat.WFQ a) (wb : BigRat.WFQ b) (da : val a.den ≠ 0) (db : val b.den ≠ 0) :
    BigRat.cmp a b = some (compare (BigRat.valQ a) (BigRat.valQ b)) := BigRat.cmp_valQ a b wa wb da db

/-! ### complex rationals a + bi (`Exact<Complex>` over exact rational parts) -/

/-- complex addition is componentwise addition of the denoted rationals -/
theorem complex_add_exact (a b : Cx) (ha : Cx.OKC a) (hb : Cx.OKC b) :
    ∃ r, Cx.add a b = .ok r ∧ BigRat.valQ r.re = BigRat.valQ a.re + BigRat.valQ b.re ∧
      BigRat.valQ r.im = BigRat.valQ a.im + BigRat.valQ b.im ∧ Cx.OKC r := Cx.add_val a b ha hb

/-- complex multiplication: `(a + bi)(c + di) = (ac - bd) + (ad + bc)i`, including every zero short-cut -/
theorem complex_mul_exact (a b : Cx) (ha : Cx.OKC a) (hb : Cx.OKC b) :
    ∃ r, Cx.mul a b = .ok r ∧
      BigRat.valQ r.re = BigRat.valQ a.re * BigRat.valQ b.re - BigRat.valQ a.im * BigRat.valQ b.im ∧
      BigRat.valQ r.im = BigRat.valQ a.re * BigRat.valQ b.im + BigRat.valQ a.im * BigRat.valQ b.re ∧ Cx.OKC r :=
  Cx.mul_val a b ha hb

/-- complex division (general path and the both-real fast path): `divideByZero` exactly for the divisor 0 + 0i, otherwise
the quotient q with q * b = a in Q(i) -/
theorem complex_div_exact (a b : Cx) (ha : Cx.OKC a) (hb : Cx.OKC b) :
    (BigRat.valQ b.re = 0 ∧ BigRat.valQ b.im = 0 → Cx.div a b = .error .divideByZero) ∧
    (¬ (BigRat.valQ b.re = 0 ∧ BigRat.valQ b.im = 0) → ∃ q, Cx.div a b = .ok q ∧ Cx.OKC q ∧
      BigRat.valQ q.re * BigRat.valQ b.re - BigRat.valQ q.im * BigRat.valQ b.im = BigRat.valQ a.re ∧
      BigRat.valQ q.re * BigRat.valQ b.im + BigRat.valQ q.im * BigRat.valQ b.re = BigRat.valQ a.im) :=
  Cx.div_val a b ha hb

/-- negation and conjugation -/
theorem complex_neg_conj (c : Cx) :
    (BigRat.valQ (Cx.neg c).re = - BigRat.valQ c.re ∧ BigRat.valQ (Cx.neg c).im = - BigRat.valQ c.im) ∧
    (BigRat.valQ (Cx.conj c).re = BigRat.valQ c.re ∧ BigRat.valQ (Cx.conj c).im = - BigRat.valQ c.im) :=
  ⟨Cx.neg_val c, Cx.conj_val c⟩

/-- THE complex statement of C01: for every expression tree over + - * / unary minus and conjugate whose literals a + bi have
well-formed rational parts, evaluation with the modelled `Exact<Complex>` operations yields the tree's value in Q(i)
(real and imaginary part), and the only error is `divideByZero`, raised exactly when some divisor is 0 + 0i -/
theorem complex_tree_exact (e : Cx.CExpr) (hl : Cx.LeavesOKC e) :
    (∀ z, Cx.denoteC e = some z → ∃ r, Cx.evalC e = .ok r ∧ (BigRat.valQ r.re, BigRat.valQ r.im) = z ∧ Cx.OKC r) ∧
    (Cx.denoteC e = none → Cx.evalC e = .error .divideByZero) := Cx.evalC_spec e hl

-- non-vacuity: (1/2 + 3i) and (0/5 + 0i) are well-formed operands (the second is the zero divisor)
example : Cx.OKC ⟨⟨false, .small 1, .small 2⟩, ⟨false, .small 3, .small 1⟩⟩ ∧ Cx.OKC ⟨⟨false, .small 0, .small 5⟩, ⟨true, .large [0, 0], .small 1⟩⟩ := by
  refine ⟨⟨⟨⟨?_, ?_⟩, ?_⟩, ⟨⟨?_, ?_⟩, ?_⟩⟩, ⟨⟨⟨?_, ?_⟩, ?_⟩, ⟨⟨?_, ?_⟩, ?_⟩⟩⟩ <;> simp [WF, val, valL, B]

/-- Defect D20 (repaired by a `fix:` commit): on the pinned tree `add` was NOT addition.
Witness: `1 + (2^128 - 1)` gave `2^64`. -/
theorem pinned_add_wrong :
    val (Pinned.add (.small 1) (.large [18446744073709551615, 18446744073709551615]))
      ≠ val (.small 1) + val (.large [18446744073709551615, 18446744073709551615]) := by
  simp [Pinned.add, Pinned.addAssignInternal, aaiLoop, valueLen, BigUint.get, BigUint.set,
    Pinned.valuePush, val, valL, B]

-- non-vacuity: the hypotheses of `sub_exact`/`cmp_exact` are met by a non-trivial, non-canonical input
example : (BigUint.large [5, 0]).WF ∧ (BigUint.small 3).WF ∧
    val (.small 3) ≤ val (.large [5, 0]) := by
  refine ⟨?_, ?_, ?_⟩ <;> simp [WF, val, valL, B]

-- non-vacuity of `field_tree_exact`: (1/2 + 2/6) / (3/4 - 6/8) has well-formed leaves and a zero divisor; (1/2 + 2/6) * (-(3/4)) a value
example : BigRat.LeavesOK (.div (.add (.lit ⟨false, .small 1, .small 2⟩) (.lit ⟨false, .small 2, .small 6⟩))
    (.sub (.lit ⟨false, .small 3, .small 4⟩) (.lit ⟨false, .small 6, .small 8⟩))) := by
  simp [BigRat.LeavesOK, BigRat.WFQ, WF, val, B]

end Fend.C01
