/-
Definitions as they stood on the PINNED tree, kept only to state (and kernel-check) the
witnesses of the defects that were repaired by `fix:` commits.  Nothing else uses them.
-/
import FendModel.Model.BigUint

namespace Fend.Pinned
open Fend Fend.BigUint

def valuePush (b : BigUint) (x : Nat) : BigUint :=
  if x = 0 then b else
  match b with
  | .small n => .large [n, x]
  | .large v => .large (v ++ [x])

/-- `add_assign_internal` before the fix: the final carry is pushed at the end of the vector -/
def addAssignInternal (self other : BigUint) (d shift : Nat) : BigUint :=
  let n := max self.valueLen (other.valueLen + shift)
  let (s, carry) := aaiLoop other d shift n 0 self 0
  if carry ≠ 0 then valuePush s carry else s

def add (self other : BigUint) : BigUint := addAssignInternal self other 1 0

/-- `BigUint::pow` before the fix: the limb count stands in for the magnitude of the exponent -/
def pow (a b : BigUint) : R BigUint :=
  if a.isZero && b.isZero then .error .zeroPowZero
  else if b.isZero then .ok (.small 1)
  else if b.valueLen > 1 then .error .exponentTooLarge
  else .ok (powInternal a (b.get 0))

end Fend.Pinned
