/-
Round trip of the left-associative operator ladder of the parser model:
`<< >>`  <  `&`  <  `xor`  <  `|`  <  `nCr`  <  `nPr`   (tightest first), over arbitrary operands that the additive
level parses.  One generic induction covers the six levels because they are all instances of `leftLoop`.
-/
import FendModel.Model.Parser

namespace Fend.Parser

/-- the six uniform levels, tightest first: 1 = shifts … 6 = permutation; level 0 is the additive level below them -/
def entryLv : Nat → Lv
  | 0 => .additive | 1 => .shifts | 2 => .bitAnd | 3 => .bitXor | 4 => .bitOr | 5 => .combination | _ => .permutation

def loopLv : Nat → Expr → Lv
  | 1 => .shiftLoop | 2 => .andLoop | 3 => .xorLoop | 4 => .orLoop | 5 => .combLoop | _ => .permLoop

def opsLv : Nat → List (Sym × Bop)
  | 1 => [(.shl, .shl), (.shr, .shr)] | 2 => [(.bitAnd, .bitAnd)] | 3 => [(.bitXor, .bitXor)] | 4 => [(.bitOr, .bitOr)]
  | 5 => [(.comb, .comb)] | 6 => [(.perm, .perm)] | _ => []

theorem run_entry (fuel k : Nat) (hk : 1 ≤ k ∧ k ≤ 6) (input : List Tok) (r : Expr) (rest : List Tok)
    (h : run fuel (entryLv (k - 1)) input = some (r, rest)) :
    run (fuel + 1) (entryLv k) input = run fuel (loopLv k r) rest := by
  obtain ⟨h1, h6⟩ := hk
  have : k = 1 ∨ k = 2 ∨ k = 3 ∨ k = 4 ∨ k = 5 ∨ k = 6 := by omega
  rcases this with rfl | rfl | rfl | rfl | rfl | rfl <;> simp [entryLv] at h <;> simp [run, entryLv, loopLv, h]

theorem run_loop (fuel k : Nat) (hk : 1 ≤ k ∧ k ≤ 6) (res : Expr) (input : List Tok) :
    run (fuel + 1) (loopLv k res) input = leftLoop (run fuel) (entryLv (k - 1)) (loopLv k) (opsLv k) res input := by
  obtain ⟨h1, h6⟩ := hk
  have : k = 1 ∨ k = 2 ∨ k = 3 ∨ k = 4 ∨ k = 5 ∨ k = 6 := by omega
  rcases this with rfl | rfl | rfl | rfl | rfl | rfl <;> simp [run, entryLv, loopLv, opsLv]

end Fend.Parser

namespace Fend.Parser

/-- symbols that may follow an expression of level `k` without continuing it: closers, the looser levels above the
ladder, and the operators of the levels above `k` -/
def followSym (k : Nat) (s : Sym) : Bool :=
  s == .closeP || s == .eq2 || s == .ne || s == .eq || s == .semi || s == .fn_ ||
  (k < 1 && (s == .shl || s == .shr)) || (k < 2 && s == .bitAnd) || (k < 3 && s == .bitXor) ||
  (k < 4 && s == .bitOr) || (k < 5 && s == .comb) || (k < 6 && s == .perm)

def Follow (k : Nat) (rest : List Tok) : Prop := rest = [] ∨ ∃ s r, rest = .sym s :: r ∧ followSym k s = true

theorem follow_mono (k : Nat) (rest : List Tok) (h : Follow (k + 1) rest) : Follow k rest := by
  rcases h with h | ⟨s, r, h1, h2⟩
  · exact Or.inl h
  · refine Or.inr ⟨s, r, h1, ?_⟩
    simp only [followSym, Bool.or_eq_true, Bool.and_eq_true, decide_eq_true_eq, beq_iff_eq] at h2 ⊢
    rcases h2 with ((((((((((h | h) | h) | h) | h) | h) | h) | h) | h) | h) | h) | h
    all_goals first
      | (left; left; left; left; left; left; left; left; left; left; left; exact h)
      | (left; left; left; left; left; left; left; left; left; left; right; exact h)
      | (left; left; left; left; left; left; left; left; left; right; exact h)
      | (left; left; left; left; left; left; left; left; right; exact h)
      | (left; left; left; left; left; left; left; right; exact h)
      | (left; left; left; left; left; left; right; exact h)
      | (left; left; left; left; left; right; exact ⟨by omega, h.2⟩)
      | (left; left; left; left; right; exact ⟨by omega, h.2⟩)
      | (left; left; left; right; exact ⟨by omega, h.2⟩)
      | (left; left; right; exact ⟨by omega, h.2⟩)
      | (left; right; exact ⟨by omega, h.2⟩)
      | (right; exact ⟨by omega, h.2⟩)

end Fend.Parser

namespace Fend.Parser

/-- an operator of level `k+1` may follow a level-`k` expression -/
theorem op_follows (k : Nat) (hk : k + 1 ≤ 6) (s : Sym) (op : Bop) (h : (s, op) ∈ opsLv (k + 1)) : followSym k s = true := by
  have : k = 0 ∨ k = 1 ∨ k = 2 ∨ k = 3 ∨ k = 4 ∨ k = 5 := by omega
  rcases this with rfl | rfl | rfl | rfl | rfl | rfl
  · simp [opsLv] at h; rcases h with ⟨rfl, _⟩ | ⟨rfl, _⟩ <;> decide
  · simp [opsLv] at h; obtain ⟨rfl, _⟩ := h; decide
  · simp [opsLv] at h; obtain ⟨rfl, _⟩ := h; decide
  · simp [opsLv] at h; obtain ⟨rfl, _⟩ := h; decide
  · simp [opsLv] at h; obtain ⟨rfl, _⟩ := h; decide
  · simp [opsLv] at h; obtain ⟨rfl, _⟩ := h; decide

theorem find_op (k : Nat) (hk : 1 ≤ k ∧ k ≤ 6) (s : Sym) (op : Bop) (h : (s, op) ∈ opsLv k) :
    (opsLv k).find? (fun p => p.1 = s) = some (s, op) := by
  obtain ⟨h1, h6⟩ := hk
  have : k = 1 ∨ k = 2 ∨ k = 3 ∨ k = 4 ∨ k = 5 ∨ k = 6 := by omega
  rcases this with rfl | rfl | rfl | rfl | rfl | rfl
  · simp [opsLv] at h; rcases h with ⟨rfl, rfl⟩ | ⟨rfl, rfl⟩ <;> simp [opsLv]
  · simp [opsLv] at h; obtain ⟨rfl, rfl⟩ := h; simp [opsLv]
  · simp [opsLv] at h; obtain ⟨rfl, rfl⟩ := h; simp [opsLv]
  · simp [opsLv] at h; obtain ⟨rfl, rfl⟩ := h; simp [opsLv]
  · simp [opsLv] at h; obtain ⟨rfl, rfl⟩ := h; simp [opsLv]
  · simp [opsLv] at h; obtain ⟨rfl, rfl⟩ := h; simp [opsLv]

theorem find_follow (k : Nat) (hk : 1 ≤ k ∧ k ≤ 6) (s : Sym) (h : followSym k s = true) :
    (opsLv k).find? (fun p => p.1 = s) = none := by
  obtain ⟨h1, h6⟩ := hk
  have : k = 1 ∨ k = 2 ∨ k = 3 ∨ k = 4 ∨ k = 5 ∨ k = 6 := by omega
  rcases this with rfl | rfl | rfl | rfl | rfl | rfl <;> cases s <;> simp [followSym] at h <;> simp [opsLv]

/-- the loop of a level stops in front of anything that may follow that level -/
theorem loop_stops (fuel k : Nat) (hk : 1 ≤ k ∧ k ≤ 6) (res : Expr) (rest : List Tok) (h : Follow k rest) :
    run (fuel + 1) (loopLv k res) rest = some (res, rest) := by
  rw [run_loop fuel k hk]
  rcases h with rfl | ⟨s, r, rfl, hs⟩
  · simp [leftLoop]
  · simp [leftLoop, find_follow k hk s hs]

/-- the loop of a level consumes `op operand` -/
theorem loop_step (fuel k : Nat) (hk : 1 ≤ k ∧ k ≤ 6) (res : Expr) (s : Sym) (op : Bop) (h : (s, op) ∈ opsLv k)
    (input rest : List Tok) (b : Expr) (hb : run fuel (entryLv (k - 1)) input = some (b, rest)) :
    run (fuel + 1) (loopLv k res) (.sym s :: input) = run fuel (loopLv k (.bop op res b)) rest := by
  rw [run_loop fuel k hk]
  simp [leftLoop, find_op k hk s op h, hb]

/-- operands of the ladder: anything the additive level parses (given enough fuel) in front of whatever may follow it -/
def BaseOK (e : Expr) (toks : List Tok) : Prop :=
  ∃ F, ∀ fuel, F ≤ fuel → ∀ rest, Follow 0 rest → run fuel .additive (toks ++ rest) = some (e, rest)

/-- how an operand's text may begin: a number, `(`, or a unary minus -/
def Starts (t0 : Tok) : Prop := (∃ n, t0 = .num n) ∨ t0 = .sym .openP ∨ t0 = .sym .sub

/-- left-associative operator chains, level by level: a level-`k+1` chain is a level-`k` chain, or a level-`k+1` chain
followed by an operator of level `k+1` and a level-`k` chain -/
inductive Chain : Nat → Type where
  | base (e : Expr) (toks : List Tok) (start : ∃ t0 ts, toks = t0 :: ts ∧ Starts t0) (ok : BaseOK e toks) : Chain 0
  | up {k : Nat} (c : Chain k) : Chain (k + 1)
  | snoc {k : Nat} (c : Chain (k + 1)) (s : Sym) (op : Bop) (h : (s, op) ∈ opsLv (k + 1)) (b : Chain k) : Chain (k + 1)

/-- the tree the precedence table prescribes -/
def Chain.toExpr : {k : Nat} → Chain k → Expr
  | _, .base e _ _ _ => e
  | _, .up c => c.toExpr
  | _, .snoc c _ op _ b => .bop op c.toExpr b.toExpr

/-- its text without any parentheses -/
def Chain.toToks : {k : Nat} → Chain k → List Tok
  | _, .base _ toks _ _ => toks
  | _, .up c => c.toToks
  | _, .snoc c s _ _ b => c.toToks ++ [.sym s] ++ b.toToks

/-- the statement proved by induction: (1) the level's entry point parses the text back to the tree in front of anything that
may follow the level; (2) for levels above the base, entering the level on the text leaves the loop holding the tree, in
front of anything that may follow the level BELOW (in particular another operator of this level) -/
def Good : {k : Nat} → Chain k → Prop
  | 0, c => ∃ F, ∀ fuel, F ≤ fuel → ∀ rest, Follow 0 rest → run fuel (entryLv 0) (c.toToks ++ rest) = some (c.toExpr, rest)
  | k + 1, c =>
    (∃ F, ∀ fuel, F ≤ fuel → ∀ rest, Follow (k + 1) rest → run fuel (entryLv (k + 1)) (c.toToks ++ rest) = some (c.toExpr, rest)) ∧
    (∃ F d, ∀ fuel, F ≤ fuel → ∀ t, Follow k t → run (fuel + d) (entryLv (k + 1)) (c.toToks ++ t) = run fuel (loopLv (k + 1) c.toExpr) t)

theorem good_main {k : Nat} (c : Chain k) (h : Good c) :
    ∃ F, ∀ fuel, F ≤ fuel → ∀ rest, Follow k rest → run fuel (entryLv k) (c.toToks ++ rest) = some (c.toExpr, rest) := by
  cases k with
  | zero => exact h
  | succ k => exact h.1

/-- from (2) to (1) -/
theorem main_of_loop {k : Nat} (hk : k + 1 ≤ 6) (c : Chain (k + 1))
    (h : ∃ F d, ∀ fuel, F ≤ fuel → ∀ t, Follow k t → run (fuel + d) (entryLv (k + 1)) (c.toToks ++ t) = run fuel (loopLv (k + 1) c.toExpr) t) :
    ∃ F, ∀ fuel, F ≤ fuel → ∀ rest, Follow (k + 1) rest → run fuel (entryLv (k + 1)) (c.toToks ++ rest) = some (c.toExpr, rest) := by
  obtain ⟨F, d, hF⟩ := h
  refine ⟨F + d + 1, fun fuel hfuel rest hrest => ?_⟩
  have hsplit : fuel = (fuel - d - 1 + 1) + d := by omega
  rw [hsplit, hF (fuel - d - 1 + 1) (by omega) rest (follow_mono k rest hrest)]
  exact loop_stops (fuel - d - 1) (k + 1) ⟨by omega, hk⟩ c.toExpr rest hrest

theorem chain_good : {k : Nat} → (hk : k ≤ 6) → (c : Chain k) → Good c
  | 0, _, .base e toks start ok => by
    obtain ⟨F, hF⟩ := ok
    exact ⟨F, fun fuel hf rest hr => by simpa [Chain.toToks, Chain.toExpr, entryLv] using hF fuel hf rest hr⟩
  | k + 1, hk, .up c => by
    have ih := good_main c (chain_good (by omega) c)
    obtain ⟨F, hF⟩ := ih
    have hloop : ∃ F d, ∀ fuel, F ≤ fuel → ∀ t, Follow k t →
        run (fuel + d) (entryLv (k + 1)) ((Chain.up c).toToks ++ t) = run fuel (loopLv (k + 1) (Chain.up c).toExpr) t := by
      refine ⟨F, 1, fun fuel hf t ht => ?_⟩
      have := hF fuel hf t ht
      simpa [Chain.toToks, Chain.toExpr] using run_entry fuel (k + 1) ⟨by omega, hk⟩ (c.toToks ++ t) c.toExpr t (by simpa using this)
    exact ⟨main_of_loop hk (Chain.up c) hloop, hloop⟩
  | k + 1, hk, .snoc c s op h b => by
    have ihc := (chain_good hk c).2
    have ihb := good_main b (chain_good (by omega) b)
    obtain ⟨Fc, dc, hFc⟩ := ihc
    obtain ⟨Fb, hFb⟩ := ihb
    have hloop : ∃ F d, ∀ fuel, F ≤ fuel → ∀ t, Follow k t →
        run (fuel + d) (entryLv (k + 1)) ((Chain.snoc c s op h b).toToks ++ t) = run fuel (loopLv (k + 1) (Chain.snoc c s op h b).toExpr) t := by
      refine ⟨Fc + Fb, dc + 1, fun fuel hf t ht => ?_⟩
      have hfollow : Follow k (Tok.sym s :: (b.toToks ++ t)) := Or.inr ⟨s, _, rfl, op_follows k hk s op h⟩
      have h1 := hFc (fuel + 1) (by omega) (Tok.sym s :: (b.toToks ++ t)) hfollow
      have h2 := hFb fuel (by omega) t ht
      have h3 := loop_step fuel (k + 1) ⟨by omega, hk⟩ c.toExpr s op h (b.toToks ++ t) t b.toExpr (by simpa using h2)
      have hadd : fuel + (dc + 1) = fuel + 1 + dc := by omega
      simp only [Chain.toToks, Chain.toExpr, List.append_assoc, List.singleton_append, List.cons_append, List.nil_append]
      rw [hadd, h1, h3]
    exact ⟨main_of_loop hk (Chain.snoc c s op h b) hloop, hloop⟩

end Fend.Parser

namespace Fend.Parser

/-! ### operands: numbers and parenthesised chains -/

theorem atom_fails (fuel : Nat) (rest : List Tok) (h : Follow 0 rest) : run fuel .atom rest = none := by
  cases fuel with
  | zero => rfl
  | succ fuel =>
    rcases h with rfl | ⟨s, r, rfl, hs⟩
    · simp [run]
    · cases s <;> simp [followSym] at hs <;> simp [run]

theorem factorial_fails (fuel : Nat) (rest : List Tok) (h : Follow 0 rest) : run fuel .factorial rest = none := by
  cases fuel with
  | zero => rfl
  | succ fuel => simp [run, atom_fails fuel rest h]

theorem power_fails (fuel : Nat) (b : Bool) (rest : List Tok) (h : Follow 0 rest) : run fuel (.power b) rest = none := by
  cases fuel with
  | zero => rfl
  | succ fuel =>
    have hf := factorial_fails fuel rest h
    rcases h with rfl | ⟨s, r, rfl, hs⟩
    · cases b <;> simp [run, hf]
    · cases b <;> cases s <;> simp [followSym] at hs <;> simp [run, hf]

theorem multiplicative_fails (fuel : Nat) (rest : List Tok) (h : Follow 0 rest) : run fuel .multiplicative rest = none := by
  cases fuel with
  | zero => rfl
  | succ fuel => simp [run, power_fails fuel true rest h]

theorem implicitAdd_fails (fuel : Nat) (rest : List Tok) (h : Follow 0 rest) : run fuel .implicitAdd rest = none := by
  cases fuel with
  | zero => rfl
  | succ fuel => simp [run, multiplicative_fails fuel rest h]

theorem mixedFraction_fails (fuel : Nat) (lhs : Expr) (rest : List Tok) (h : Follow 0 rest) : run fuel (.mixedFraction lhs) rest = none := by
  cases fuel with
  | zero => rfl
  | succ fuel =>
    simp only [run]
    split
    · rfl
    · simp [power_fails fuel false rest h]

theorem applyCont_fails (fuel : Nat) (lhs : Expr) (rest : List Tok) (h : Follow 0 rest) : run fuel (.applyCont lhs) rest = none := by
  cases fuel with
  | zero => rfl
  | succ fuel => simp [run, power_fails fuel false rest h]

theorem mulLoop_stops (fuel : Nat) (res : Expr) (rest : List Tok) (h : Follow 0 rest) :
    run (fuel + 1) (.mulLoop res) rest = some (res, rest) := by
  have h1 := mixedFraction_fails fuel res rest h
  have h2 := applyCont_fails fuel res rest h
  rcases h with rfl | ⟨s, r, rfl, hs⟩
  · simp [run, h1, h2]
  · cases s <;> simp [followSym] at hs <;> simp [run, h1, h2]

theorem addLoop_stops (fuel : Nat) (res : Expr) (rest : List Tok) (h : Follow 0 rest) :
    run (fuel + 1) (.addLoop res) rest = some (res, rest) := by
  rcases h with rfl | ⟨s, r, rfl, hs⟩
  · simp [run]
  · cases s <;> simp [followSym] at hs <;> simp [run]

theorem factLoop_stops (fuel : Nat) (res : Expr) (rest : List Tok) (h : Follow 0 rest) :
    run (fuel + 1) (.factLoop res) rest = some (res, rest) := by
  rcases h with rfl | ⟨s, r, rfl, hs⟩
  · simp [run, symHead]
  · cases s <;> simp [followSym] at hs <;> simp [run, symHead]

theorem factorial_step (fuel : Nat) (input : List Tok) (r : Expr) (rest : List Tok) (h : run fuel .atom input = some (r, rest)) :
    run (fuel + 1) .factorial input = run fuel (.factLoop r) rest := by simp [run, h]

theorem power_step (fuel : Nat) (t0 : Tok) (toks : List Tok) (r : Expr) (rest : List Tok)
    (hstart : (∃ n, t0 = .num n) ∨ t0 = .sym .openP)
    (h : run fuel .factorial (t0 :: toks) = some (r, rest)) (hp : symHead rest .pow = none) :
    run (fuel + 1) (.power true) (t0 :: toks) = some (r, rest) := by
  rcases hstart with ⟨n, rfl⟩ | rfl <;> simp [run, h, hp]

theorem multiplicative_step (fuel : Nat) (input : List Tok) (r : Expr) (rest : List Tok) (h : run fuel (.power true) input = some (r, rest)) :
    run (fuel + 1) .multiplicative input = run fuel (.mulLoop r) rest := by simp [run, h]

theorem implicitAdd_step (fuel : Nat) (input : List Tok) (r : Expr) (rest : List Tok) (h : run fuel .multiplicative input = some (r, rest))
    (hn : run fuel .implicitAdd rest = none) : run (fuel + 1) .implicitAdd input = some (r, rest) := by simp [run, h, hn]

theorem additive_step (fuel : Nat) (input : List Tok) (r : Expr) (rest : List Tok) (h : run fuel .implicitAdd input = some (r, rest)) :
    run (fuel + 1) .additive input = run fuel (.addLoop r) rest := by simp [run, h]

theorem symHead_pow_follow (rest : List Tok) (h : Follow 0 rest) : symHead rest .pow = none := by
  rcases h with rfl | ⟨s, r, rfl, hs⟩
  · rfl
  · cases s <;> simp [followSym] at hs <;> simp [symHead]

/-- whatever the atom level parses — when the text starts with a number or an opening parenthesis — the additive level
parses too, in front of anything that may follow it -/
theorem atom_up (e : Expr) (t0 : Tok) (toks : List Tok) (hstart : (∃ n, t0 = .num n) ∨ t0 = .sym .openP)
    (hatom : ∃ F, ∀ fuel, F ≤ fuel → ∀ rest, run fuel .atom (t0 :: toks ++ rest) = some (e, rest)) : BaseOK e (t0 :: toks) := by
  obtain ⟨F, hF⟩ := hatom
  refine ⟨F + 6, fun fuel hfuel rest hrest => ?_⟩
  obtain ⟨g, rfl⟩ : ∃ g, fuel = g + 1 + 5 := ⟨fuel - 6, by omega⟩
  have ha := hF (g + 1) (by omega) rest
  have h1 : run (g + 1 + 1) .factorial (t0 :: toks ++ rest) = some (e, rest) := by
    rw [factorial_step (g + 1) _ e rest ha]; exact factLoop_stops g e rest hrest
  have h2 : run (g + 1 + 2) (.power true) (t0 :: toks ++ rest) = some (e, rest) :=
    power_step (g + 1 + 1) t0 (toks ++ rest) e rest hstart h1 (symHead_pow_follow rest hrest)
  have h3 : run (g + 1 + 3) .multiplicative (t0 :: toks ++ rest) = some (e, rest) := by
    rw [multiplicative_step (g + 1 + 2) _ e rest h2]; exact mulLoop_stops (g + 1 + 1) e rest hrest
  have h4 : run (g + 1 + 4) .implicitAdd (t0 :: toks ++ rest) = some (e, rest) :=
    implicitAdd_step (g + 1 + 3) _ e rest h3 (implicitAdd_fails _ rest hrest)
  show run (g + 1 + 4 + 1) .additive (t0 :: toks ++ rest) = some (e, rest)
  rw [additive_step (g + 1 + 4) _ e rest h4]; exact addLoop_stops (g + 1 + 3) e rest hrest

/-- number literals are operands -/
theorem num_base (n : String) : BaseOK (.num n) [.num n] :=
  atom_up (.num n) (.num n) [] (Or.inl ⟨n, rfl⟩) ⟨1, fun fuel hf rest => by
    obtain ⟨f, rfl⟩ : ∃ f, fuel = f + 1 := ⟨fuel - 1, by omega⟩
    simp [run]⟩

end Fend.Parser

namespace Fend.Parser

theorem chain_starts : {k : Nat} → (c : Chain k) → ∃ t0 ts, c.toToks = t0 :: ts ∧ Starts t0
  | _, .base _ _ start _ => start
  | _, .up c => by simpa [Chain.toToks] using chain_starts c
  | _, .snoc c s _ _ b => by
    obtain ⟨t0, ts, h, hs⟩ := chain_starts c
    exact ⟨t0, ts ++ [.sym s] ++ b.toToks, by simp [Chain.toToks, h], hs⟩

theorem function_step (fuel : Nat) (input : List Tok) (r : Expr) (rest : List Tok) (h : run fuel .permutation input = some (r, rest))
    (hf : symHead rest .fn_ = none) : run (fuel + 1) .function input = some (r, rest) := by simp [run, h, hf]

theorem equality_step (fuel : Nat) (input : List Tok) (r : Expr) (rest : List Tok) (h : run fuel .function input = some (r, rest))
    (hr : rest = [] ∨ ∃ r', rest = .sym .closeP :: r') : run (fuel + 1) .equality input = some (r, rest) := by
  rcases hr with rfl | ⟨r', rfl⟩ <;> simp [run, h]

theorem assignment_step (fuel : Nat) (input : List Tok) (r : Expr) (rest : List Tok) (h : run fuel .equality input = some (r, rest))
    (hr : rest = [] ∨ ∃ r', rest = .sym .closeP :: r') : run (fuel + 1) .assignment input = some (r, rest) := by
  rcases hr with rfl | ⟨r', rfl⟩ <;> simp [run, h, symHead]

theorem stmtLoop_stops (fuel : Nat) (r : Expr) (rest : List Tok) (hr : rest = [] ∨ ∃ r', rest = .sym .closeP :: r') :
    run (fuel + 1) (.stmtLoop r) rest = some (r, rest) := by
  rcases hr with rfl | ⟨r', rfl⟩ <;> simp [run]

theorem statements_step (fuel : Nat) (t0 : Tok) (toks : List Tok) (r : Expr) (rest : List Tok)
    (hstart : Starts t0)
    (h : run fuel .assignment (t0 :: toks) = some (r, rest)) (hl : run fuel (.stmtLoop r) rest = some (r, rest)) :
    run (fuel + 1) .statements (t0 :: toks) = some (r, rest) := by
  rcases hstart with ⟨n, rfl⟩ | rfl | rfl <;> simp [run, h, hl]

/-- a complete chain is parsed back by the top of the parser (statement level), in front of the end of input or a closing
parenthesis -/
theorem statements_of_chain (c : Chain 6) :
    ∃ F, ∀ fuel, F ≤ fuel → ∀ rest, (rest = [] ∨ ∃ r', rest = .sym .closeP :: r') →
      run fuel .statements (c.toToks ++ rest) = some (c.toExpr, rest) := by
  obtain ⟨F, hF⟩ := good_main c (chain_good (by omega) c)
  obtain ⟨t0, ts, htoks, hstart⟩ := chain_starts c
  refine ⟨F + 5, fun fuel hfuel rest hrest => ?_⟩
  obtain ⟨g, rfl⟩ : ∃ g, fuel = g + 1 + 4 := ⟨fuel - 5, by omega⟩
  have hfollow : Follow 6 rest := by
    rcases hrest with rfl | ⟨r', rfl⟩
    · exact Or.inl rfl
    · exact Or.inr ⟨.closeP, r', rfl, by decide⟩
  have hfn : symHead rest .fn_ = none := by rcases hrest with rfl | ⟨r', rfl⟩ <;> simp [symHead]
  have h0 := hF (g + 1) (by omega) rest hfollow
  have h1 := function_step (g + 1) _ _ _ (by simpa [entryLv] using h0) hfn
  have h2 := equality_step (g + 1 + 1) _ _ _ h1 hrest
  have h3 := assignment_step (g + 1 + 2) _ _ _ h2 hrest
  rw [htoks] at h3 ⊢
  exact statements_step (g + 1 + 3) t0 (ts ++ rest) _ rest hstart (by simpa using h3) (stmtLoop_stops (g + 1 + 2) _ rest hrest)

/-- the atom level parses a parenthesised chain -/
theorem paren_atom (c : Chain 6) : ∃ F, ∀ fuel, F ≤ fuel → ∀ rest,
    run fuel .atom (.sym .openP :: (c.toToks ++ [.sym .closeP]) ++ rest) = some (.parens c.toExpr, rest) := by
  obtain ⟨F, hF⟩ := statements_of_chain c
  obtain ⟨t0, ts, htoks, hstart⟩ := chain_starts c
  refine ⟨F + 1, fun fuel hfuel rest => ?_⟩
  obtain ⟨g, rfl⟩ : ∃ g, fuel = g + 1 := ⟨fuel - 1, by omega⟩
  have h := hF g (by omega) (.sym .closeP :: rest) (Or.inr ⟨rest, rfl⟩)
  simp only [List.cons_append, List.append_assoc, List.singleton_append] at h ⊢
  rw [htoks] at h ⊢
  simp only [List.cons_append] at h ⊢
  rcases hstart with ⟨n, rfl⟩ | rfl | rfl <;> simp [run, h]

/-- a parenthesised chain is an operand again: parentheses nest to any depth -/
theorem paren_base (c : Chain 6) :
    BaseOK (.parens c.toExpr) (.sym .openP :: (c.toToks ++ [.sym .closeP])) :=
  atom_up (Expr.parens c.toExpr) (Tok.sym Sym.openP) (c.toToks ++ [Tok.sym Sym.closeP]) (Or.inr rfl) (paren_atom c)

end Fend.Parser
