/-
Model of `fend_core::evaluate_preview_with_interrupt` (lib.rs).  The context is the record of all
eight fields; the evaluator is an ARBITRARY function (it may mutate the context at will, fail, or
be interrupted) that reports which host callbacks it invoked.
-/
namespace Fend.Preview

inductive Callback | rng | exchangeRate
deriving DecidableEq, Repr

structure Ctx (V : Type) where
  currentTime : Option Nat
  variables : V
  fcMode : Bool
  randomU32 : Option Nat            -- identity of the installed fn pointer
  outputMode : Bool
  getExchangeRate : Option Nat      -- identity of the installed handler
  customUnits : List (String × String × String)
  decimalSeparator : Bool
deriving DecidableEq, Repr

structure EvalOut (V : Type) where
  result : Option (String × Bool)   -- `Ok(main_result, is_unit)` or `Err`
  ctx : Ctx V
  trace : List Callback

abbrev Evaluator (V : Type) := String → Ctx V → EvalOut V

/-- the two places where the core can invoke a host callback read the callback out of the context;
an evaluator with this property cannot call a callback that is not installed -/
def CallbacksOnlyViaContext {V} (eval : Evaluator V) : Prop :=
  ∀ input c, ∀ cb ∈ (eval input c).trace,
    (cb = .rng ∧ c.randomU32.isSome) ∨ (cb = .exchangeRate ∧ c.getExchangeRate.isSome)

/-- `s.contains(|c| c < ' ')` -/
def hasControl (s : String) : Bool := s.toList.any (fun c => c.toNat < 32)

/-- the output filter: empty, unit-typed, longer than 50 bytes, an echo of the input, or containing
a control character (hence any newline) is suppressed -/
def filter (input : String) (r : String × Bool) : Option (String × Bool) :=
  if r.1.isEmpty || r.2 || r.1.utf8ByteSize > 50 || r.1.trimAscii.toString == input.trimAscii.toString
     || hasControl r.1 then none else some r

structure PreviewOut (V : Type) where
  result : Option (String × Bool)
  ctx : Ctx V
  trace : List Callback

def evaluatePreview {V} (eval : Evaluator V) (input : String) (context : Ctx V) : PreviewOut V :=
  let contextClone := context
  let c1 := { context with randomU32 := none, getExchangeRate := none }
  let out := eval input c1
  -- `*context = context_clone`
  let restored := contextClone
  match out.result with
  | none => { result := none, ctx := restored, trace := out.trace }
  | some r => { result := filter input r, ctx := restored, trace := out.trace }

end Fend.Preview
