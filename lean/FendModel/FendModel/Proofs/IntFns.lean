import FendModel.Model.IntFns
import FendModel.Proofs.BigUintSub

namespace Fend
open BigUint

/-! ### specification functions -/
def fibSpec : Nat → Nat
  | 0 => 0
  | 1 => 1
  | n + 2 => fibSpec n + fibSpec (n + 1)

def factSpec : Nat → Nat
  | 0 => 1
  | n + 1 => (n + 1) * factSpec n

namespace BigUint

theorem fibLoop_spec (k : Nat) (a b : BigUint) (i : Nat) (ha : val a = fibSpec i) (hb : val b = fibSpec (i + 1)) :
    val (fibLoop k a b) = fibSpec (i + 1 + k) := by
  induction k generalizing a b i with
  | zero => simpa [fibLoop] using hb
  | succ k ih =>
    rw [fibLoop]
    have := ih b (add a b) (i + 1) hb (by rw [add_val, ha, hb]; rfl)
    rw [this]; congr 1; omega

theorem fibonacci_val (n : Nat) : val (fibonacci n) = fibSpec n := by
  unfold fibonacci
  by_cases h0 : n = 0
  · subst h0; simp [val, fibSpec]
  by_cases h1 : n = 1
  · subst h1; simp [val, fibSpec]
  simp only [h0, h1, if_false]
  rw [fibLoop_spec (n - 1) (small 0) (small 1) 0 (by simp [val, fibSpec]) (by simp [val, fibSpec])]
  congr 1; omega

theorem one_WF : (small 1).WF := by simp [WF, B]

theorem factSpec_le_one (n : Nat) (h : n ≤ 1) : factSpec n = 1 := by
  cases n with
  | zero => rfl
  | succ n => cases n with
    | zero => rfl
    | succ n => omega

theorem factLoop_spec (fuel : Nat) (self res : BigUint) (hs : self.WF) (hf : val self < fuel) :
    ∃ r, factLoop fuel self res = .ok r ∧ val r = val res * factSpec (val self) := by
  induction fuel generalizing self res with
  | zero => omega
  | succ fuel ih =>
    unfold factLoop
    by_cases hlt : blt (small 1) self = true
    · have hv1 : val (small 1) = 1 := rfl
      have h1 : 1 < val self := by have := (blt_iff _ _ one_WF hs).mp hlt; rwa [hv1] at this
      simp only [hlt, if_true]
      obtain ⟨s, hsub, hv, hw⟩ := sub_val self (small 1) hs one_WF (by rw [hv1]; omega)
      rw [hsub]
      simp only
      rw [hv1] at hv
      obtain ⟨r, hr, hrv⟩ := ih s (mul res self) hw (by rw [hv]; omega)
      refine ⟨r, hr, ?_⟩
      rw [hrv, mul_val, hv]
      obtain ⟨k, hk⟩ : ∃ k, val self = k + 1 := ⟨val self - 1, by omega⟩
      rw [hk, factSpec]
      simp only [Nat.add_sub_cancel]
      ring
    · have hv1 : val (small 1) = 1 := rfl
      have h1 : ¬ 1 < val self := by
        intro h; exact hlt ((blt_iff _ _ one_WF hs).mpr (by rw [hv1]; exact h))
      simp only [hlt]
      exact ⟨res, rfl, by rw [factSpec_le_one _ (by omega)]; simp⟩

/-- `BigUint::factorial` computes n! exactly (for every representation of n) and never fails -/
theorem factorial_val (n : BigUint) (hn : n.WF) :
    ∃ r, factorial n = .ok r ∧ val r = factSpec (val n) := by
  unfold factorial
  obtain ⟨r, h, hv⟩ := factLoop_spec (val n + 1) n (small 1) hn (by omega)
  exact ⟨r, h, by rw [hv]; simp [val]⟩

end BigUint

namespace BigRat

/-- the magnitude chosen by `round_with` is the mathematically required one: with
`num = q*den + r`, `0 ≤ r < den`, `x = ±num/den` and `z` the signed result, `z` is
⌊x⌋, ⌈x⌉ or the nearest integer (ties away from zero) -/
theorem roundMag_floor (neg : Bool) (q r den : Nat) (hr : r < den) :
    let m := roundMag .floor neg q r den
    let x : Int := if neg then -((q * den + r : Nat) : Int) else ((q * den + r : Nat) : Int)
    let z : Int := if neg then -(m : Int) else (m : Int)
    z * den ≤ x ∧ x < (z + 1) * den := by
  simp only [roundMag, awayFromZero]
  by_cases h0 : r = 0
  · subst h0; cases neg <;> simp <;> nlinarith
  · have hpos : 0 < r := Nat.pos_of_ne_zero h0
    cases neg <;> simp [h0] <;> push_cast <;> (try constructor) <;> first | omega | nlinarith

theorem roundMag_ceil (neg : Bool) (q r den : Nat) (hr : r < den) :
    let m := roundMag .ceil neg q r den
    let x : Int := if neg then -((q * den + r : Nat) : Int) else ((q * den + r : Nat) : Int)
    let z : Int := if neg then -(m : Int) else (m : Int)
    (z - 1) * den < x ∧ x ≤ z * den := by
  simp only [roundMag, awayFromZero]
  by_cases h0 : r = 0
  · subst h0; cases neg <;> simp <;> nlinarith
  · have hpos : 0 < r := Nat.pos_of_ne_zero h0
    cases neg <;> simp [h0] <;> push_cast <;> (try constructor) <;> first | omega | nlinarith

/-- nearest integer, ties away from zero: `|x - z| ≤ 1/2`, and on a tie the larger magnitude -/
theorem roundMag_round (neg : Bool) (q r den : Nat) (hr : r < den) :
    let m := roundMag .round neg q r den
    (2 * (q * den + r) ≤ 2 * m * den + den ∧ 2 * m * den ≤ 2 * (q * den + r) + den)
    ∧ (2 * r = den → m = q + 1) := by
  simp only [roundMag, awayFromZero]
  by_cases h0 : r = 0
  · subst h0; simp
    refine ⟨⟨by nlinarith, by nlinarith⟩, by omega⟩
  · simp only [h0, if_false]
    rcases Nat.lt_trichotomy (2 * r) den with h | h | h
    · simp only [Nat.compare_eq_lt.mpr h]
      refine ⟨⟨by simp; nlinarith, by simp; nlinarith⟩, by omega⟩
    · simp only [Nat.compare_eq_eq.mpr h]
      refine ⟨⟨by simp; nlinarith, by simp; nlinarith⟩, by simp⟩
    · simp only [Nat.compare_eq_gt.mpr h]
      refine ⟨⟨by simp; nlinarith, by simp; nlinarith⟩, by simp⟩

end BigRat

namespace IntFns

/-- a greedy pass over any list of positive values keeps `total + remaining = n` -/
theorem romanStepValue_inv (vals : List Nat) (t n : Nat) :
    (vals.foldl romanStepValue (t, n)).1 + (vals.foldl romanStepValue (t, n)).2 = t + n := by
  induction vals generalizing t n with
  | nil => rfl
  | cons v vs ih =>
    simp only [List.foldl_cons, romanStepValue]
    rw [ih]
    have := Nat.div_mul_le_self n v
    omega

/-- and a pass that ends with the value 1 leaves nothing over: the emitted numerals denote `n` -/
theorem roman_denotes (vals : List Nat) (n : Nat) :
    ((vals ++ [1]).foldl romanStepValue (0, n)).1 = n := by
  have h := romanStepValue_inv (vals ++ [1]) 0 n
  rw [List.foldl_append] at h ⊢
  simp only [List.foldl_cons, List.foldl_nil, romanStepValue] at h ⊢
  simp at h ⊢
  omega

end IntFns
end Fend
