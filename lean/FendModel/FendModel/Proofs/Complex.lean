/-
The complex layer over exact rationals: `add`, `mul`, `div` of `Exact<Complex>` denote the field operations of Q(i)
(for every representation of the four rational parts, including the zero short-cuts and the both-real fast path of `div`);
`div` fails exactly for a zero divisor, with `divideByZero`.
-/
import FendModel.Model.Complex
import FendModel.Proofs.BigRatCmp

namespace Fend
namespace Cx
open BigRat BigUint

/-- a well-formed rational: limbs < 2^64, non-zero denominator -/
def OKQ (a : BigRat) : Prop := WFQ a ∧ val a.den ≠ 0

theorem ofNat64_ok (n : Nat) (h : n < B) : OKQ (BigRat.ofNat64 n) :=
  ⟨⟨h, by show 1 < B; decide⟩, by show (1 : Nat) ≠ 0; decide⟩

theorem valQ_ofNat64 (n : Nat) : valQ (BigRat.ofNat64 n) = n := by
  show (if false = true then -1 else 1) * ((n : Nat) : Rat) / ((1 : Nat) : Rat) = n
  simp

theorem isZero_iff (a : BigRat) (ha : OKQ a) : isZero a = true ↔ valQ a = 0 := by
  have hc := cmp_valQ a (BigRat.ofNat64 0) ha.1 (ofNat64_ok 0 B_pos).1 ha.2 (ofNat64_ok 0 B_pos).2
  rw [valQ_ofNat64] at hc
  have hcd : cmpD a (BigRat.ofNat64 0) = compare (valQ a) 0 := by simp [cmpD, hc]
  unfold isZero
  rw [hcd]
  constructor
  · intro h
    rcases Bool.or_eq_true _ _ |>.mp h with h1 | h1
    · apply (valQ_eq_zero_iff a ha.2).mpr
      unfold defZero at h1
      split at h1
      · rename_i n hn; rw [hn]; simpa [val] using h1
      · cases h1
    · have : compare (valQ a) ((0 : Nat) : Rat) = .eq := by simpa using h1
      exact compare_eq_iff_eq.mp (by simpa using this)
  · intro h
    rw [Bool.or_eq_true]; right
    rw [h]; simp

theorem negate_ok (a : BigRat) (ha : OKQ a) : OKQ (negate a) := ha

theorem radd_val (a b : BigRat) (ha : OKQ a) (hb : OKQ b) :
    ∃ r, radd a b = .ok r ∧ valQ r = valQ a + valQ b ∧ OKQ r := by
  unfold radd
  by_cases h1 : isZero a = true
  · simp only [h1, if_true]; exact ⟨b, rfl, by rw [(isZero_iff a ha).mp h1]; ring, hb⟩
  · simp only [h1]
    by_cases h2 : isZero b = true
    · simp only [h2, if_true]; exact ⟨a, by simp, by rw [(isZero_iff b hb).mp h2]; ring, ha⟩
    · simp only [h2]
      obtain ⟨r, hr, hv, hw, hd⟩ := add_valQ a b ha.1 hb.1 ha.2 hb.2
      exact ⟨r, by simpa using hr, hv, hw, hd⟩

theorem rmul_val (a b : BigRat) (ha : OKQ a) (hb : OKQ b) :
    ∃ r, rmul a b = .ok r ∧ valQ r = valQ a * valQ b ∧ OKQ r := by
  unfold rmul
  by_cases h1 : isZero a = true
  · simp only [h1, if_true]; exact ⟨a, rfl, by rw [(isZero_iff a ha).mp h1]; ring, ha⟩
  · simp only [h1]
    by_cases h2 : isZero b = true
    · simp only [h2, if_true]; exact ⟨b, by simp, by rw [(isZero_iff b hb).mp h2]; ring, hb⟩
    · simp only [h2]
      obtain ⟨mw, md⟩ := mul_WFQ a b ha.1 hb.1 ha.2 hb.2
      exact ⟨BigRat.mul a b, by simp, mul_valQ a b, mw, md⟩

theorem rdiv_val (a b : BigRat) (ha : OKQ a) (hb : OKQ b) :
    (valQ b = 0 → rdiv a b = .error .divideByZero) ∧
    (valQ b ≠ 0 → ∃ r, rdiv a b = .ok r ∧ valQ r = valQ a / valQ b ∧ OKQ r) := by
  unfold rdiv
  constructor
  · intro h; simp [(isZero_iff b hb).mpr h]
  · intro h
    have h2 : isZero b = false := by
      cases hz : isZero b with
      | false => rfl
      | true => exact absurd ((isZero_iff b hb).mp hz) h
    simp only [h2, Bool.false_eq_true, if_false]
    by_cases h1 : isZero a = true
    · simp only [h1, if_true]; exact ⟨a, rfl, by rw [(isZero_iff a ha).mp h1]; simp, ha⟩
    · simp only [h1]
      have hn0 : val b.num ≠ 0 := fun h0 => h ((valQ_eq_zero_iff b hb.2).mpr h0)
      have hz : numIsZero b = false := by
        cases hzz : numIsZero b with
        | false => rfl
        | true => exact absurd ((numIsZero_iff b hb.1.1).mp hzz) hn0
      obtain ⟨t, ht, htv⟩ := (div_valQ a b hb.1.1).2 hz
      have htt : t = ⟨signOfProduct a.neg b.neg, BigUint.mul a.num b.den, BigUint.mul a.den b.num⟩ := by
        simp [BigRat.div, hz] at ht; exact ht.symm
      refine ⟨t, by simpa using ht, htv hb.2, ?_, ?_⟩
      · rw [htt]; exact ⟨mul_WF _ _ ha.1.1 hb.1.2, mul_WF _ _ ha.1.2 hb.1.1⟩
      · rw [htt]; show val (BigUint.mul a.den b.num) ≠ 0
        rw [mul_val]; exact Nat.mul_ne_zero ha.2 hn0

/-- all four parts well-formed -/
def OKC (c : Cx) : Prop := OKQ c.re ∧ OKQ c.im

/-- complex addition -/
theorem add_val (a b : Cx) (ha : OKC a) (hb : OKC b) :
    ∃ r, add a b = .ok r ∧ valQ r.re = valQ a.re + valQ b.re ∧ valQ r.im = valQ a.im + valQ b.im ∧ OKC r := by
  obtain ⟨re, h1, v1, o1⟩ := radd_val a.re b.re ha.1 hb.1
  obtain ⟨im, h2, v2, o2⟩ := radd_val a.im b.im ha.2 hb.2
  exact ⟨⟨re, im⟩, by simp [add, h1, h2], v1, v2, o1, o2⟩

/-- complex multiplication: `(a + bi)(c + di) = (ac - bd) + (ad + bc)i` -/
theorem mul_val (a b : Cx) (ha : OKC a) (hb : OKC b) :
    ∃ r, mul a b = .ok r ∧ valQ r.re = valQ a.re * valQ b.re - valQ a.im * valQ b.im ∧
      valQ r.im = valQ a.re * valQ b.im + valQ a.im * valQ b.re ∧ OKC r := by
  obtain ⟨p1, h1, v1, o1⟩ := rmul_val a.re b.re ha.1 hb.1
  obtain ⟨p2, h2, v2, o2⟩ := rmul_val a.im b.im ha.2 hb.2
  obtain ⟨re, h3, v3, o3⟩ := radd_val p1 (negate p2) o1 (negate_ok p2 o2)
  obtain ⟨p3, h4, v4, o4⟩ := rmul_val a.re b.im ha.1 hb.2
  obtain ⟨p4, h5, v5, o5⟩ := rmul_val a.im b.re ha.2 hb.1
  obtain ⟨im, h6, v6, o6⟩ := radd_val p3 p4 o4 o5
  refine ⟨⟨re, im⟩, by simp only [mul, h1, h2, h3, h4, h5, h6, bind, Except.bind], ?_, ?_, o3, o6⟩
  · show valQ re = _; rw [v3, negate_valQ, v1, v2]; ring
  · show valQ im = _; rw [v6, v4, v5]

theorem sq_sum_zero (x y : Rat) : x * x + y * y = 0 ↔ x = 0 ∧ y = 0 := by
  constructor
  · intro h
    have hx : 0 ≤ x * x := mul_self_nonneg x
    have hy : 0 ≤ y * y := mul_self_nonneg y
    exact ⟨mul_self_eq_zero.mp (by linarith), mul_self_eq_zero.mp (by linarith)⟩
  · rintro ⟨rfl, rfl⟩; simp

/-- complex division: fails with `divideByZero` exactly for a zero divisor; otherwise the quotient `q` satisfies
`q * b = a` in Q(i) -/
theorem div_val (a b : Cx) (ha : OKC a) (hb : OKC b) :
    (valQ b.re = 0 ∧ valQ b.im = 0 → div a b = .error .divideByZero) ∧
    (¬ (valQ b.re = 0 ∧ valQ b.im = 0) → ∃ q, div a b = .ok q ∧ OKC q ∧
      valQ q.re * valQ b.re - valQ q.im * valQ b.im = valQ a.re ∧
      valQ q.re * valQ b.im + valQ q.im * valQ b.re = valQ a.im) := by
  have z0 : OKQ (BigRat.ofNat64 0) := ofNat64_ok 0 B_pos
  have z1 : OKQ (BigRat.ofNat64 1) := ofNat64_ok 1 (by decide)
  unfold div
  by_cases hfast : (isZero a.im && isZero b.im) = true
  · obtain ⟨hai, hbi⟩ : isZero a.im = true ∧ isZero b.im = true := by simpa using hfast
    have hv : valQ a.im = 0 := (isZero_iff a.im ha.2).mp hai
    have hy : valQ b.im = 0 := (isZero_iff b.im hb.2).mp hbi
    simp only [hfast, if_true]
    obtain ⟨d1, d2⟩ := rdiv_val a.re b.re ha.1 hb.1
    constructor
    · intro h; simp [d1 h.1, bind, Except.bind]
    · intro h
      have hx : valQ b.re ≠ 0 := fun h0 => h ⟨h0, hy⟩
      obtain ⟨r, hr, hrv, hro⟩ := d2 hx
      refine ⟨⟨r, BigRat.ofNat64 0⟩, by simp [hr, bind, Except.bind], ⟨hro, z0⟩, ?_, ?_⟩
      · show valQ r * valQ b.re - valQ (BigRat.ofNat64 0) * valQ b.im = valQ a.re
        rw [hrv, valQ_ofNat64]; field_simp; simp
      · show valQ r * valQ b.im + valQ (BigRat.ofNat64 0) * valQ b.re = valQ a.im
        rw [hy, hv, valQ_ofNat64]; simp
  · simp only [hfast]
    obtain ⟨prod1, h1, v1, o1⟩ := rmul_val b.re b.re hb.1 hb.1
    obtain ⟨prod2, h2, v2, o2⟩ := rmul_val b.im b.im hb.2 hb.2
    obtain ⟨sum, h3, v3, o3⟩ := radd_val prod1 prod2 o1 o2
    have hsum : valQ sum = valQ b.re * valQ b.re + valQ b.im * valQ b.im := by rw [v3, v1, v2]
    obtain ⟨d1, d2⟩ := rdiv_val (BigRat.ofNat64 1) sum z1 o3
    constructor
    · intro h
      have : valQ sum = 0 := by rw [hsum]; exact (sq_sum_zero _ _).mpr h
      simp [h1, h2, h3, d1 this, bind, Except.bind]
    · intro h
      have hs0 : valQ sum ≠ 0 := by rw [hsum]; exact fun h0 => h ((sq_sum_zero _ _).mp h0)
      obtain ⟨rp, h4, v4, o4⟩ := d2 hs0
      obtain ⟨prod3, h5, v5, o5⟩ := rmul_val a.re b.re ha.1 hb.1
      obtain ⟨prod4, h6, v6, o6⟩ := rmul_val a.im b.im ha.2 hb.2
      obtain ⟨real2, h7, v7, o7⟩ := radd_val prod3 prod4 o5 o6
      obtain ⟨prod5, h8, v8, o8⟩ := rmul_val a.im b.re ha.2 hb.1
      obtain ⟨prod6, h9, v9, o9⟩ := rmul_val a.re b.im ha.1 hb.2
      obtain ⟨imag2, h10, v10, o10⟩ := radd_val prod5 (negate prod6) o8 (negate_ok prod6 o9)
      obtain ⟨q, hq, qre, qim, qo⟩ := mul_val ⟨rp, BigRat.ofNat64 0⟩ ⟨real2, imag2⟩ ⟨o4, z0⟩ ⟨o7, o10⟩
      refine ⟨q, by simp only [h1, h2, h3, h4, h5, h6, h7, h8, h9, h10, bind, Except.bind]; exact hq, qo, ?_, ?_⟩
      · have e0 : valQ (BigRat.ofNat64 0) = 0 := by rw [valQ_ofNat64]; simp
        have e1 : valQ rp = 1 / (valQ b.re * valQ b.re + valQ b.im * valQ b.im) := by rw [v4, valQ_ofNat64, hsum]; simp
        rw [hsum] at hs0
        rw [qre, qim]
        show (valQ rp * valQ real2 - valQ (BigRat.ofNat64 0) * valQ imag2) * valQ b.re
            - (valQ rp * valQ imag2 + valQ (BigRat.ofNat64 0) * valQ real2) * valQ b.im = valQ a.re
        rw [e0, e1, v7, v5, v6, v10, negate_valQ, v8, v9]
        have hs0' : valQ b.re ^ 2 + valQ b.im ^ 2 ≠ 0 := by rwa [pow_two, pow_two]
        have hs0'' : valQ b.im ^ 2 + valQ b.re ^ 2 ≠ 0 := by rwa [add_comm]
        field_simp
        ring
      · have e0 : valQ (BigRat.ofNat64 0) = 0 := by rw [valQ_ofNat64]; simp
        have e1 : valQ rp = 1 / (valQ b.re * valQ b.re + valQ b.im * valQ b.im) := by rw [v4, valQ_ofNat64, hsum]; simp
        rw [hsum] at hs0
        rw [qre, qim]
        show (valQ rp * valQ real2 - valQ (BigRat.ofNat64 0) * valQ imag2) * valQ b.im
            + (valQ rp * valQ imag2 + valQ (BigRat.ofNat64 0) * valQ real2) * valQ b.re = valQ a.im
        rw [e0, e1, v7, v5, v6, v10, negate_valQ, v8, v9]
        have hs0' : valQ b.re ^ 2 + valQ b.im ^ 2 ≠ 0 := by rwa [pow_two, pow_two]
        have hs0'' : valQ b.im ^ 2 + valQ b.re ^ 2 ≠ 0 := by rwa [add_comm]
        field_simp
        ring

theorem neg_val (c : Cx) : valQ (neg c).re = - valQ c.re ∧ valQ (neg c).im = - valQ c.im :=
  ⟨negate_valQ c.re, negate_valQ c.im⟩

theorem conj_val (c : Cx) : valQ (conj c).re = valQ c.re ∧ valQ (conj c).im = - valQ c.im :=
  ⟨rfl, negate_valQ c.im⟩

end Cx
end Fend
