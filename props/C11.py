"""C11 — every built-in and custom unit name resolves, coherently with its family."""
import re, time
from vlib import core
from translator import units, units_resolved

MODULE = "FendModel.Props.C11"
REL = "FendModel/Props/C11.lean"

def pk(s):
    return s.encode().hex() if s else "_"

def first_component(out):
    """'ok 1 kilo-meter (kilo-meters, = 1000 meter) ...' -> 'kilo-meter'"""
    m = re.match(r"ok (?:approx\. )?-?[0-9./\[\], ]+? ?([^\s(]+) \(", out)
    return m.group(1) if m else None

def run(ctx):
    quick = ctx.tier == "quick"
    h = ctx.harness()
    if h is None:
        ctx.proof_failures.append({"file": "harness", "decl": "harness build", "line": 0, "msg": getattr(ctx, "harness_error", "")})
        return ctx.finish()
    t0 = time.time()
    # Tie A: regenerate the raw table and what THIS tree resolves every name to; the table theorems are then re-checked
    table, short, currencies, names, res, fam, alias, sp = units_resolved.generate(ctx, h)
    ctx.lean_build([MODULE])
    ctx.audit(MODULE, REL)
    if not quick:
        ctx.leanchecker(MODULE)
    r = ctx.rng
    # when a table theorem fails, search the dumped table for the concrete names that break it (the failing input)
    if ctx.proof_failures:
        for inp, impl, spec in units_resolved.table_failures():
            ctx.spec_failures.append({"stream": "unit-table", "input": inp, "impl": impl, "model": "", "spec": spec})
    # Tie B: the lookup model vs the implementation
    tab_names = [n for n in dict.fromkeys([x for _, s, p, _ in table for x in (s, p) if x]) if n not in ("'", '"') and " " not in n]
    long_prefixes = [s for _, s, p, d in table if units.rule_of(d)[0] == "longPrefix"]
    short_prefixes = [a for a, _ in short]
    idents = []
    for n in tab_names:
        idents += [n, n.lower(), n.upper(), n.capitalize()]
    base_sample = tab_names if not quick else r.sample(tab_names, 70) + ["meter", "gram", "byte", "B", "inch", "hour", "m", "g", "s", "K", "zib", "smoot", "mile", "florp", "hugo", "byteish", "USD"]
    for p in long_prefixes + short_prefixes + ["hugo", "Kilo", "MEGA", "ki"]:
        for n in base_sample:
            # only names that continue an identifier: `quetta%`, `kilo’` are two tokens for the lexer, not one prefixed name
            if n[0].isalpha():
                idents.append(p + n)
    idents += ["kilozib", "kilozibs", "ksmoot", "kilomile", "kilomiles", "hugometer", "florp", "florps", "Florp", "kiloflorp", "byteish", "quarterhour", "quartermeters", "QuarterHour", "EiB", "C", "F", "c", "f"]
    idents = list(dict.fromkeys(i for i in idents if i and not any(ch in i for ch in " \t\n'\"#@;()") and not i[0].isdigit()))
    cases = []
    for i in idents:
        cases.append(("cf=0", "custom=0", i))
    for i in r.sample(idents, min(len(idents), 1500 if quick else len(idents))) + ["C", "F", "kilozib", "ksmoot", "kilomile", "florp", "mile", "miles", "hugometer"]:
        cases.append((r.choice(["cf=0", "cf=1"]), "custom=1", i))
    impl = ctx.run_lines_robust(h, ["unitq"], [f"{cf} {cu} @debug 1 {i}" for cf, cu, i in cases], env={"HARNESS_LINE_TIMEOUT_S": "10"})
    model = ctx.run_lines(core.DRIVER, ["unitlookup"], [f"{cf} {cu} {pk(i)}" for cf, cu, i in cases], timeout=900)[1]
    dist = {"whole": 0, "prefixed": 0, "notfound": 0, "shadowed_by_nonunit": 0}
    NONUNIT = {"i", "pi", "e", "true", "false", "sin", "cos", "tan", "ln", "abs", "not", "version", "sample", "roll", "mean", "base", "hex", "binary", "octal", "bin", "oct", "decimal",
               "auto", "exact", "frac", "fraction", "float", "dp", "sf", "words", "roman", "today", "tomorrow", "yesterday", "trans", "conjugate", "real", "imag", "re", "im", "arg", "floor", "ceil", "round",
               "fib", "fibonacci", "exp", "log", "log2", "log10", "sqrt", "cbrt", "asin", "acos", "atan", "sinh", "cosh", "tanh", "asinh", "acosh", "atanh", "approx", "approximately", "mixed_frac", "mixed_fraction",
               "unitless", "null", "tau", "phi", "ans", "_", "cis", "differentiate", "dydx", "mixed", "earth", "char", "character", "codepoint", "string", "date", "avg", "average", "to", "as", "in", "of", "mod", "xor", "and", "or", "per", "nCr", "nPr", "choose", "permute", "rem", "equals", "combination", "permutation"}
    for (cf, cu, i), a, m in zip(cases, impl, model):
        kind = m.split(" ")[0]
        # an all-uppercase identifier that is no unit falls back to the lowercase built-in (`TAU` -> `tau`)
        if i in NONUNIT or (i.lower() in NONUNIT and all(ch.isdigit() or ch.isupper() for ch in i)):
            dist["shadowed_by_nonunit"] += 1
            continue
        dist[kind] = dist.get(kind, 0) + 1
        found = a.startswith("ok ")
        unknown = a.startswith("err unknown identifier")
        inp = f"{cf} {cu} 1 {i}"
        if a.startswith("panic"):
            ctx.spec_failures.append({"stream": "lookup", "input": inp, "impl": a[:200], "model": m, "spec": "lookup never panics"}); continue
        if kind == "notfound":
            if found:
                # resolved although the table's own prefix rules (regenerated from the source's l@ / s@ / lp@ / sp@ annotations) say it does not: if what came back
                # is a prefixed unit `<prefix>-<unit>` with <prefix> + <unit> = the identifier, a name that must not take that prefix took it
                fc = first_component(a)
                pres = [p_ for p_ in long_prefixes + short_prefixes if i.startswith(p_) and fc is not None and fc.startswith(p_ + "-")]
                if pres:
                    ctx.spec_failures.append({"stream": "lookup", "input": inp, "impl": a[:120], "model": m, "spec": f"names that must not take a prefix do not: `{i}` resolved as prefix `{pres[0]}` + unit, which the table's prefix rules forbid"})
                else:
                    ctx.model_disagreements.append({"stream": "lookup", "input": inp, "impl": a[:120], "model": m})
        else:
            if unknown:
                # the model says this name resolves; for table names (no prefix) that is also what the property demands
                tgt = ctx.spec_failures if ((kind == "whole" and i in tab_names) or kind == "prefixed") else ctx.model_disagreements
                tgt.append({"stream": "lookup", "input": inp, "impl": a[:120], "model": m, "spec": "every name in the unit table, and every name formed with a permitted prefix, evaluates without error"})
            elif kind == "prefixed" and found:
                pre = bytes.fromhex(m.split(" ")[1]).decode()
                fc = first_component(a)
                if fc is not None and not fc.startswith(pre + "-"):
                    ctx.model_disagreements.append({"stream": "lookup", "input": inp, "impl": a[:120], "model": m + f" (prefix {pre})"})
    ctx.record_stream("lookup", "every table name as written / lower / upper / capitalised, every long and short prefix x table names (sampled in quick), custom units of every attribute kind "
                      "(incl. one shadowing a built-in), both C/F modes: found / not-found / which prefix, implementation (`@debug 1 <name>`) vs the Lean lookup model over the regenerated table",
                      len(cases), len(set(cases)), dist, [c[2] for c in cases[:3]], time.time() - t0)
    ctx.record_stream("unit-table", "the resolved table (what this tree makes of every singular/plural name, as exact rationals) regenerated into Gen/UnitsResolved.lean and checked by decide +kernel",
                      len(names), len(names), {"names": len(names), "families": len(fam), "same_as_pairs": len(alias), "singular_plural_pairs": len(sp)}, names[:3], 0)
    return ctx.finish(rule="exhaustive over the unit table of the tree under test for the table theorems; lookup stream: names x case variants x prefixes; distinct = distinct (mode, custom, identifier)",
                      extra={"exhaustive": True})

def replay(ctx, rep):
    print(rep["first"])
    return 0
