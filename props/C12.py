"""C12 — saved variables reload to the same values."""
import time
from vlib import core

MODULE = "FendModel.Props.C12"
REL = "FendModel/Props/C12.lean"

BUILTINS = ["approximately", "abs", "sin", "cos", "tan", "asin", "acos", "atan", "sinh", "cosh", "tanh", "asinh", "acosh", "atanh", "ln",
            "log2", "log10", "base", "sample", "mean", "not", "conjugate", "real", "imag", "arg", "floor", "ceil", "round", "fibonacci"]
NUMS = ["3", "-7", "0", "2.5", "1/3", "-22/7", "1e100", "2^64", "2^64 - 1", "2^200", "(2^128+5)-2^128", "2^4000", "2^4200", "70!", "0x1f", "0b1011", "6#4510",
        "pi", "2 pi", "pi/3", "e", "i", "3+4i", "(1/3) i", "sqrt 2", "approx. 5", "1.(3)", "0.1(6)"]
UNITS = ["kg", "m", "km/h", "m/s^2", "N m", "°C", "°F", "K", "GiB", "kWh", "%", "inches", "lightyear", "USD" if False else "mol", "m^(1/2)", "s^-1", "ft lb", "mph", "L", "'myunit'"]
FMTS = ["to fraction", "to mixed_fraction", "to exact", "to 3 dp", "to 20 dp", "to 4 sf", "to 1 sf", "to auto", "to hex", "to binary", "to octal", "to base 7",
        "to base 36", "to 3 dp to hex"]
STRS = ['"abc"', '""', '"é ü 中 \\u{1F600}"', '"line\\nbreak \\t tab"', "'single'", '"quote \\" inside"', '#"raw "string""#']
MISC = ["true", "false", "1 == 1", "()", "@2024-02-29", "@1000-01-01", "@9999-12-31", "month of @2024-02-29", "day_of_week of @2024-02-29", "d6", "2d6", "d6 + d4", "d20 * 2",
        "3d4 - 1", "fraction", "mixed_fraction", "float", "exact", "auto", "dp", "sf", "3 dp", "5 sf", "hex", "binary", "octal", "base 7", "decimal", "earth", "earth.mass"]
LAMBDAS = ["x: x + 1", "\\x. x^2", "x => x * 2 kg", "x: y: x + y", "\\x.\\y.\\z. x y z", "f: x: f (f x)", "x: (x != 3)", "x: (x == 3)", "x: y: (x != y)", "x: sin x + v0",
           "x: x to fraction", "x: -x!", "x: (x; 5)", "x: (q = x; q + 1)", "x: 5 mod x + (x xor 3) + (x << 2)", "x: x nCr 2 + x nPr 2", "x: /x", "x: x as words", "x: 3 x",
           "x: sqrt x of kg" if False else "x: \"s\"", "x: x to 2 dp", "x: +x", "x: (y: x + y)"]

ARGS = ["2", "3 kg", "(x: x)", "sin", "1/3", '"s"', "@2024-02-29", "(2^4200)"]

def gen_history(r):
    stmts, names = [], []
    n = r.randint(1, 7)
    for i in range(n):
        k = r.random()
        name = r.choice(["v0", "v1", "v2", "v3", "f0", "f1", "très", "x"])
        if k < 0.3:
            e = r.choice(NUMS)
            if r.random() < 0.5: e = f"({e}) {r.choice(UNITS)}"
            if r.random() < 0.4: e = f"{e} {r.choice(FMTS)}"
            if r.random() < 0.15:
                # the result of an explicit conversion into a compound unit keeps that unit (it is not simplified again): a flag of the stored
                # number that only shows when the value is printed or used after the reload
                u1, u2 = r.choice(["m", "km", "s", "kg", "ft", "hour"]), r.choice(["m", "km", "cm", "s", "ms", "g", "inch"])
                e = f"({r.choice(NUMS)}) {u1} {u2} to {u1} {u2}"
        elif k < 0.4:
            e = r.choice(STRS)
        elif k < 0.55:
            e = r.choice(MISC)
        elif k < 0.7:
            e = r.choice(BUILTINS)
            if r.random() < 0.3: e = f"{e}^-1" if e in ("sin", "cos", "tan", "sinh", "cosh", "tanh", "asin", "acos") else f"x: {e} x"
            if r.random() < 0.15: e = f"{r.choice(BUILTINS)} + 1"        # built-in wrapped in an expression closure
        elif k < 0.9:
            e = r.choice(LAMBDAS)
        else:
            # closure with a captured scope: apply a curried function partially
            if r.random() < 0.5:
                # several captured links, parameter names re-used (the ORDER of the captured chain decides which binding wins)
                npar = r.randint(2, 5)
                ps = [r.choice(["x", "y", "a"]) for _ in range(npar)]
                body = " + ".join(f"{r.choice([1, 2, 10, 100])} {q_}" for q_ in r.sample(ps, min(len(ps), r.randint(1, 3))))
                e = "(" + "".join(f"{p_}: " for p_ in ps) + body + ") " + " ".join(str(r.randint(1, 9)) for _ in range(r.randint(1, npar - 1)))
            else:
                base = r.choice([n_ for n_ in names if n_.startswith("f")] or ["(x: y: z: x + y z)"])
                e = "(" + base + ") " + r.choice(ARGS)
        stmts.append(f"{name} = {e}")
        names.append(name)
    if r.random() < 0.3:
        stmts.append(r.choice(["1/0", "unknownident", "2 + 3", "5 kg + 2 m"]))      # failures / `_`,`ans` updates
    probes = []
    for nm in sorted(set(names)) + ["_", "ans"]:
        probes += [nm, f"{nm} 2", f"{nm} 2 3", f"{nm} 0", f"{nm} 10 20 30", f"12345.678 to {nm}", f"{nm} + 1", f"({nm}) == ({nm})", f"{nm} to fraction"]
    return " ;; ".join(stmts) + " || " + " ;; ".join(probes)

def run(ctx):
    quick = ctx.tier == "quick"
    ctx.lean_build([MODULE])
    ctx.audit(MODULE, REL)
    if not quick:
        ctx.leanchecker(MODULE)
    h = ctx.harness()
    if h is None:
        ctx.proof_failures.append({"file": "harness", "decl": "harness build (verif-hooks)", "line": 0, "msg": getattr(ctx, "harness_error", "")})
        return ctx.finish()
    r = ctx.rng
    corpus = ["f0 = x: y: x + y ;; f1 = f0 2 ;; v0 = floor ;; v1 = mean ;; v2 = arg ;; v3 = round || f1 3 ;; v0 2.5 ;; v3 2.5 ;; f1 ;; v1 (d6)",
              "v0 = 2^4200 ;; v1 = 7 ;; v2 = \"text\" || v0 ;; v1 ;; v2 ;; v0 + 1",
              "f0 = \\x. (x != 3) ;; f1 = x: y: (x != y) || f0 3 ;; f0 4 ;; f0 ;; f1 1 2 ;; f1"]
    cases = corpus + [gen_history(r) for _ in range(700 if quick else 40000)]
    t0 = time.time()
    outs = ctx.run_lines_robust(h, ["serde"], cases, env={"HARNESS_LINE_TIMEOUT_S": "8"})
    imgs, idx = [], []
    dist = {"histories": len(cases), "load_failed": 0, "probe_mismatch": 0, "probe_pairs": 0, "model_rejects": 0, "model_reser_differs": 0,
            "reload_image_differs": 0, "with_closure_scope": 0, "value_tags": {}}
    for i, (c, o) in enumerate(zip(cases, outs)):
        parts = dict(p.split("=", 1) for p in o.split("\t") if "=" in p)
        if o.startswith("err timeout"):
            dist["timeouts"] = dist.get("timeouts", 0) + 1      # a slow probe (huge expansion), not a verdict
            continue
        if "img2" not in parts:
            dist["load_failed"] += 1
            ctx.spec_failures.append({"stream": "histories", "input": c, "impl": o[:400], "model": "", "spec": "writing the variables out and reading them back must succeed"})
            continue
        p1, p2 = parts["p1"].split("|"), parts["p2"].split("|")
        dist["probe_pairs"] += len(p1)
        if p1 != p2:
            dist["probe_mismatch"] += 1
            k = next(j for j in range(len(p1)) if j >= len(p2) or p1[j] != p2[j])
            probe = c.split(" || ")[1].split(" ;; ")[k]
            ctx.spec_failures.append({"stream": "histories", "input": c, "impl": f"probe `{probe}`: before={p1[k]!r} after={p2[k] if k < len(p2) else None!r}", "model": "",
                                      "spec": "every variable prints, compares and behaves exactly as before the reload"})
        imgs.append(parts["img"]); idx.append(i)
        imgs.append(parts["img2"]); idx.append(i)
    # the model parses the REAL bytes: it must accept them, reproduce them byte for byte, and the
    # image written after the reload must be the same table (modulo hash-map order)
    mouts = ctx.run_lines(core.DRIVER, ["serde"], imgs, timeout=900)[1]
    for j in range(0, len(imgs), 2):
        c = cases[idx[j]]
        a, b = (mouts[j] if j < len(mouts) else "missing"), (mouts[j + 1] if j + 1 < len(mouts) else "missing")
        if not a.startswith("ok") or not b.startswith("ok"):
            dist["model_rejects"] += 1
            ctx.model_disagreements.append({"stream": "histories", "input": c, "impl": "image written by fend", "model": f"model reads it as {a[:40]} / {b[:40]}"})
            continue
        wa, wb = a.split(" "), b.split(" ")
        if wa[2] != "1" or wb[2] != "1":
            dist["model_reser_differs"] += 1
            ctx.model_disagreements.append({"stream": "histories", "input": c, "impl": imgs[j][:200], "model": "model's re-serialization of the parsed image differs from the image"})
        if wa[3] != wb[3]:
            dist["reload_image_differs"] += 1
            ctx.spec_failures.append({"stream": "histories", "input": c, "impl": "the table saved after the reload differs from the table saved before it (compared order-independently by the model)",
                                      "model": "", "spec": "reloaded values are the same values"})
        if "0601" in imgs[j] or "01 06" in imgs[j]:
            pass
    dist["with_closure_scope"] = sum(1 for c in cases if ") 2" in c or ") 3 kg" in c or "f0 2" in c)
    ctx.record_stream("histories", "random statement histories over a value-kind grammar (numbers with units/formats/bases incl. > 64 limbs, strings, bools, dates, "
                      "months, weekdays, dice, objects, formats/bases/dp/sf, every built-in function name, lambdas in all syntaxes, partially applied curried closures "
                      "with captured scopes); real serialize -> real deserialize -> real serialize; 7 probes per variable (print, apply, convert, add, compare) "
                      "before and after; the Lean model parses the real bytes, must reproduce them and must find both images equal modulo map order",
                      len(cases), len(set(cases)), dist, cases[:3], time.time() - t0)
    return ctx.finish(rule="histories of 1-7 assignments drawn from a value-kind grammar + an optional failing/plain statement; distinct = distinct histories; "
                           "all are non-trivial (each stores at least one variable)")

def replay(ctx, rep):
    h = ctx.harness()
    f = rep["first"]
    print("history:", f["input"])
    out = ctx.run_lines(h, ["serde"], [f["input"]])[1][0]
    for p in out.split("\t"):
        print("  ", p[:300])
    return 0
